"""C02 — graph optimization (operation fusion) never changes any computed value.
P1: Optimize.tla over DAG shapes x projected memories x budgets x requested sets x forced sets: RewriteValid, SourcesAreLeaves
    (switch CheckRequested=FALSE must violate).
P2/P4: generated DAGs (chains, diamonds, repeated arguments, mixed levels, shared/requested intermediates, reductions,
    selections, rechunks, stores) x optimizer settings: values equal the unoptimized run and NumPy, requested arrays
    materialized; the real (pre, post) DAG pair judged by OptTrace.tla (Focus=C02)."""
import os
import random
import sys
import warnings

import numpy as np

sys.path.insert(0, os.path.dirname(os.path.dirname(os.path.abspath(__file__))))
from harness.core import main  # noqa
from harness import programs, traced, optmc  # noqa
from harness.tlc import run_tlc  # noqa
from checks import optcheck, seqexec  # noqa

INV = ["NothingBeforeValidate", "RefusedWritesNothing", "FusedNotLess", "DefaultStaysInBudget", "RewriteValid", "SourcesAreLeaves"]


def p1(chk, shapes, switches):
    for name in shapes:
        r = run_tlc("MCO", cfg=dict(spec="Spec", constants=optmc.constants(), invariants=INV, deadlock=False),
                    extra_modules={"MCO.tla": optmc.mc_module("MCO", optmc.SHAPES[name])}, timeout=1200, coverage=True)
        chk.add_tlc("Optimize/" + name, r)
        if r.violated:
            chk.violation(f"mechanism model Optimize[{name}] violates {r.violated}", replay=dict(shape=name))
    for label, kw, shape, exp in switches:
        # a vacuity job checks only the clause that must fail (several workers could otherwise report another broken clause first)
        r = run_tlc("MCO", cfg=dict(spec="Spec", constants=optmc.constants(**kw), invariants=[exp] if isinstance(exp, str) else INV, deadlock=False),
                    extra_modules={"MCO.tla": optmc.mc_module("MCO", optmc.SHAPES[shape])}, timeout=1200)
        chk.add_tlc("Optimize/switch-" + label, r, expect_violation=exp)


def run(chk):
    import cubed
    warnings.simplefilter("ignore")
    chk.rule = ("structured DAG families + random programs + store/region programs, each under default / multiple-inputs with "
                "random limits / legacy simple / fuse_all / fuse_only / always+never optimizers; oracle = unoptimized run and NumPy; "
                "non-trivial = the optimizer removed at least one operation; distinct = (program, optimizer, requested set)")
    p1(chk, ["chain3", "diamond", "rep", "mixed", "multiout", "rechunk"] if chk.tier == "thorough" else ["chain3", "diamond", "rep", "multiout"],
       [("CheckRequested=FALSE", dict(checkrequested=False), "chain3", "RewriteValid")])
    rng = random.Random(chk.seed + 201)
    nprog = 25 if chk.tier == "quick" else 400
    docs, metas = [], []
    tries = 0
    done = 0
    f17_probe = dict(inputs=[dict(shape=[4, 5], chunks=[4, 2], dtype="int64", seed=1, pattern="lin", src="asarray")],
                     steps=[dict(op="index", args=[0], kw=dict(idx=[[None, None, None], [1, None, None]])),
                            dict(op="sum", args=[1], kw=dict(axis=0))], outs=[2], family="probe-F17")
    while done < nprog and tries < nprog * 3:
        tries += 1
        m = tries % 4
        if tries == 1:      # probe of the open finding F17, always exercised
            prog, nv = f17_probe, programs.Interp(np, False).run(f17_probe)
        elif m in (0, 1):
            prog, nv = programs.structured(rng)
        elif m == 2:
            prog, nv = programs.gen_program(rng, max_steps=6)
        else:
            prog, nv = programs.layouts(rng)
            if prog.get("family") == "rechunk":
                prog, nv = programs.structured(rng)
        # request intermediates sometimes
        if tries > 1 and rng.random() < 0.4 and len(prog["steps"]) >= 2:
            nvals = len(nv)
            ninp = len(prog["inputs"])
            extra = rng.sample(range(ninp, nvals), k=min(nvals - ninp, rng.choice([1, 2])))
            prog = dict(prog, outs=sorted(set(prog["outs"]) | set(extra)))
        with traced.Session() as s:
            spec = s.spec(**prog.get("spec", {}))
            try:
                cv, it = seqexec.build(prog, spec)
            except programs.DECLINE:
                continue
            arrays = [cv[o] for o in prog["outs"]]
            if not all(isinstance(a, cubed.Array) for a in arrays):
                continue
            try:
                pre_fp = cubed.plan(*arrays, optimize_graph=False)
            except programs.DECLINE:
                continue
            pre = optcheck.export_dag(pre_fp)
            try:
                ref = cubed.compute(*arrays, optimize_graph=False)
            except Exception as e:
                continue      # fails even unoptimized: C17's business
            done += 1
            requested = [a.name for a in arrays]
            for label, og, of, forced in optcheck.optimizers(rng, pre):
                meta = dict(program=prog, optimizer=label)
                try:
                    post_fp = cubed.plan(*arrays, optimize_graph=og, optimize_function=of)
                    post = optcheck.export_dag(post_fp)
                except Exception as e:
                    chk.case(key=(str(prog["steps"]), label))
                    chk.violation(f"optimizer {label} failed on an accepted plan: {type(e).__name__}: {str(e)[:150]}", replay=meta)
                    continue
                doc = dict(pre=pre, post=post, requested=requested, allowed=int(spec.allowed_mem), forced=bool(forced), events=[])
                removed = len(pre["ops"]) - len(post["ops"])
                meta.update(removed_ops=removed, pre_ops=len(pre["ops"]))
                if post_fp.exceeds_memory:
                    # forced fusion may be declined at validation (C04); never computes something else
                    docs.append(doc)
                    metas.append(dict(meta, declined=True))
                    continue
                try:
                    res = cubed.compute(*arrays, optimize_graph=og, optimize_function=of)
                except Exception as e:
                    docs.append(doc)
                    metas.append(dict(meta, error=f"{type(e).__name__}: {str(e)[:200]}"))
                    continue
                same_ref = all(programs.same(r, q) for r, q in zip(res, ref))
                same_np = all(programs.same(r, nv[o]) for r, o in zip(res, prog["outs"]))
                mat = all(optcheck.materialized(a, getattr(it, 'target_info', None)) for a in arrays)
                docs.append(doc)
                metas.append(dict(meta, same_as_unoptimized=bool(same_ref), same_as_numpy=bool(same_np), materialized=bool(mat)))
    verdicts = optcheck.validate(chk, "C02", docs)
    for k, (doc, meta) in enumerate(zip(docs, metas), 1):
        verdict, l = verdicts[k]
        chk.case(key=(str(meta["program"]["steps"]), str(meta["program"]["outs"]), meta["optimizer"]), nontrivial=meta.get("removed_ops", 0) > 0,
                 sample=dict(family=meta["program"].get("family", "random"), steps=[s["op"] for s in meta["program"]["steps"]],
                             requested=doc["requested"], optimizer=meta["optimizer"], pre_ops=meta.get("pre_ops"),
                             removed_ops=meta.get("removed_ops"), verdict=verdict) if k % 20 == 1 else None)
        chk.trace_validated()
        if verdict != "ok":
            chk.violation(f"optimizer {meta['optimizer']}: DAG rewrite rejected by OptTrace clause {verdict}; "
                          f"pre={[(o['name'], o['srcs']) for o in doc['pre']['ops']]} post={[(o['name'], o['srcs']) for o in doc['post']['ops']]} "
                          f"requested={doc['requested']}", replay=dict(meta=meta, doc=doc))
        elif meta.get("error"):
            legacy = meta["optimizer"] == "simple"
            chk.fail_or_known(f"optimizer {meta['optimizer']}: computing the optimized plan failed: {meta['error']}",
                              replay=meta, optimizer=meta["optimizer"], error=meta["error"], kind="optimized-run-error")
        elif not meta.get("declined"):
            if not meta["same_as_unoptimized"] or not meta["same_as_numpy"]:
                chk.violation(f"optimizer {meta['optimizer']}: values differ from the unoptimized run "
                              f"(same_as_unoptimized={meta['same_as_unoptimized']}, same_as_numpy={meta['same_as_numpy']})", replay=meta)
            elif not meta["materialized"]:
                chk.violation(f"optimizer {meta['optimizer']}: a requested array is not fully materialized in storage", replay=meta)
    chk.extra["programs"] = done
    chk.extra["declined_by_admission"] = sum(1 for m in metas if m.get("declined"))


if __name__ == "__main__":
    sys.exit(main(run, "C02"))
