"""C15 — blockwise block addressing follows the index expression, before and after fusion.
P3 (TLC as evaluator of the transcribed reference, spec/Blockwise.tla; one implementation test per enumerated case):
 (1) index notation: for index patterns x block counts x broadcast dims x new axes x contractions, the real
     make_blockwise_back_key_function_flattened must return exactly the keys the reference computes (same arrays,
     coordinates, positions), or decline with ValueError at construction where the reference declines;
 (2) fusion: trees of real PrimitiveOperations (key-function shapes: one-to-one, several/swapped/repeated arguments, list,
     iterator, alternating and concatenating sources) fused with the real fuse_multiple / fuse; the fused spec is run on
     symbolic blocks (through the real map_nested) and must produce the provenance term of the reference, lists staying
     lists and iterators staying iterators."""
import itertools
import json
import os
import random
import sys
import tempfile
import types
import warnings
from collections.abc import Iterator

sys.path.insert(0, os.path.dirname(os.path.dirname(os.path.abspath(__file__))))
from harness.core import main, MachineryError  # noqa
from harness.tlc import run_tlc  # noqa


# ------------------------------------------------------------------------------------------------ TLC evaluation
def tlc_eval(chk, cases, label):
    d = tempfile.mkdtemp(prefix="bw-")
    try:
        cf = os.path.join(d, "cases.json")
        json.dump(cases, open(cf, "w"))
        r = run_tlc("Blockwise", cfg=dict(spec="Spec", deadlock=False), workers=1, timeout=3000, env={"CASE_FILE": cf})
        chk.add_tlc("Blockwise/" + label, r)
        out = {}
        for line in r.out.splitlines():
            s = line.strip()
            if s.startswith('"RES') and s.endswith('"'):
                body = s[4:-1].replace('\\"', '"').replace("\\\\", "\\")
                o = json.loads(body)
                out[o["id"]] = o
        if len(out) != len(cases):
            raise MachineryError(f"Blockwise.tla evaluated {len(out)} of {len(cases)} cases\n{r.out[-2000:]}")
        return out
    finally:
        import shutil
        shutil.rmtree(d, ignore_errors=True)


# ------------------------------------------------------------------------------------------------ (1) index notation
def gen_index_cases(rng, n, exhaustive_small=False):
    cases = []
    names = ["a", "b", "c"]
    seen = set()
    tries = 0
    while len(cases) < n and tries < n * 20:
        tries += 1
        nsym = rng.randint(1, 4)
        syms = list(range(nsym))
        nargs = rng.randint(1, 3)
        base_nb = {s: rng.choice([1, 2, 3]) for s in syms}
        args = []
        for k in range(nargs):
            nd = rng.randint(0, min(3, nsym))
            ind = rng.sample(syms, nd)
            nb = []
            for s in ind:
                r = rng.random()
                if r < 0.25:
                    nb.append(1)                       # broadcast dimension
                elif r < 0.3:
                    nb.append(rng.choice([2, 3]))       # possibly inconsistent
                else:
                    nb.append(base_nb[s])
            args.append(dict(name=names[k], ind=ind, nb=nb))
        if nargs >= 2 and rng.random() < 0.3:
            # the same array passed twice with a different index pattern (x_ij, x_ji): one numblocks entry per name
            a0 = args[0]
            if len(a0["ind"]) >= 1:
                perm = list(range(len(a0["ind"])))
                rng.shuffle(perm)
                cand = [s_ for s_ in syms]
                ind2 = [rng.choice(cand) for _ in a0["ind"]] if rng.random() < 0.5 else [a0["ind"][p_] for p_ in perm]
                if len(set(ind2)) == len(ind2):
                    args[1] = dict(name=a0["name"], ind=ind2, nb=list(a0["nb"]))
        used = sorted({s for a in args for s in a["ind"]})
        # output: a sub-permutation of used symbols, maybe plus one new axis
        outk = rng.randint(0, min(3, len(used)))
        out = rng.sample(used, outk)
        new_axes = {}
        if rng.random() < 0.2 and len(out) < 3:
            na = nsym + 1
            out.insert(rng.randint(0, len(out)), na)
            new_axes[na] = 1
        key = json.dumps([out, args, sorted(new_axes)])
        if key in seen:
            continue
        seen.add(key)
        # output blocks
        dims = []
        for s in out:
            if s in new_axes:
                dims.append(1)
            else:
                dims.append(max([a["nb"][a["ind"].index(s)] for a in args if s in a["ind"]] or [1]))
        blocks = [list(b) for b in itertools.product(*[range(d) for d in dims])]
        cases.append(dict(id=len(cases), kind="index", out=out, args=args, blocks=blocks, new_axes=new_axes))
    return cases


def real_index(case):
    from cubed.primitive.blockwise import ChunkKey, make_blockwise_back_key_function_flattened
    pairs = []
    for a in case["args"]:
        pairs += [a["name"], tuple(a["ind"])]
    numblocks = {a["name"]: tuple(a["nb"]) for a in case["args"]}
    try:
        fn = make_blockwise_back_key_function_flattened(lambda *x: None, "out", tuple(case["out"]), *pairs, numblocks=numblocks,
                                                        new_axes={int(k): v for k, v in case["new_axes"].items()})
    except ValueError:
        return dict(declined=True, keys=[])
    keys = []
    for b in case["blocks"]:
        fa = fn(ChunkKey("out", tuple(b)))
        keys.append([dict(name=k.name, coords=list(k.coords)) for k in fa.args])
    return dict(declined=False, keys=keys)


# ------------------------------------------------------------------------------------------------ (2) fusion provenance
KINDS = ["map", "map2", "swap2", "rep", "shift", "pairlist", "pairiter", "alt", "concat", "mixlist", "mixiter"]
ARITY = dict(map=1, map2=2, swap2=2, rep=1, shift=1, pairlist=1, pairiter=1, alt=2, concat=2, mixlist=2, mixiter=2)


def out_blocks(kf, n):
    """number of output blocks given n blocks per source"""
    return dict(pairlist=n // 2, pairiter=n // 2, alt=2 * n, concat=2 * n).get(kf, n)


def gen_fusion_cases(rng, n):
    """Trees: consumer C over sources; each source is an input array or the output of a predecessor op (itself maybe
    over predecessors), each predecessor fused or not."""
    cases = []
    while len(cases) < n:
        cnt = [0]
        ops = []

        def fresh(prefix):
            cnt[0] += 1
            return f"{prefix}{cnt[0]}"

        def build(depth, nblocks_out):
            """returns (array name, nblocks) of an array with nblocks_out blocks: either an input or an op output"""
            if depth == 0 or rng.random() < 0.3:
                return fresh("in")
            kf = rng.choice(KINDS)
            # choose n (blocks per source) so that out_blocks(kf, n) == nblocks_out
            if kf in ("pairlist", "pairiter"):
                nsrc = nblocks_out * 2
            elif kf in ("alt", "concat"):
                if nblocks_out % 2:
                    kf = "map"
                    nsrc = nblocks_out
                else:
                    nsrc = nblocks_out // 2
            else:
                nsrc = nblocks_out
            if nsrc < 1 or nsrc > 8:
                return fresh("in")
            srcs = [build(depth - 1, nsrc) for _ in range(ARITY[kf])]
            name = fresh("op")
            out = "arr_" + name
            ops.append(dict(name=name, kf=kf, srcs=srcs, out=out, n=nsrc, fused=rng.random() < 0.8))
            return out
        nb = rng.choice([1, 2, 2, 4])
        top = build(rng.choice([1, 2, 2, 3]), nb)
        if not ops or ops[-1]["out"] != top:
            continue
        if not any(o["fused"] for o in ops[:-1]):
            if len(ops) > 1:
                ops[0]["fused"] = True
            else:
                continue
        ops[-1]["fused"] = False
        cases.append(dict(id=len(cases), kind="fusion", ops=ops, consumer=ops[-1]["name"], blocks=list(range(nb))))
    return cases


def norm(x):
    """real symbolic value -> JSON shape of the reference"""
    if isinstance(x, dict):
        return x
    if isinstance(x, list):
        return dict(t="list", items=[norm(i) for i in x])
    if isinstance(x, (Iterator, types.GeneratorType, map)):
        return dict(t="iter", items=[norm(i) for i in x])
    raise TypeError(f"unexpected symbolic value {x!r}")


def make_key_function(op):
    from cubed.primitive.blockwise import ChunkKey, FunctionArgs
    kf, s, n = op["kf"], op["srcs"], op["n"]

    def K(a, i):
        return ChunkKey(a, (i,))

    def f(out_key):
        i = out_key.coords[0]
        if kf == "map":
            args = (K(s[0], i),)
        elif kf == "map2":
            args = (K(s[0], i), K(s[1], i))
        elif kf == "swap2":
            args = (K(s[1], i), K(s[0], i))
        elif kf == "rep":
            args = (K(s[0], i), K(s[0], i))
        elif kf == "shift":
            args = (K(s[0], (i + 1) % n),)
        elif kf == "pairlist":
            args = ([K(s[0], 2 * i), K(s[0], 2 * i + 1)],)
        elif kf == "pairiter":
            args = (iter([K(s[0], 2 * i), K(s[0], 2 * i + 1)]),)
        elif kf == "mixlist":
            args = ([K(s[0], i), K(s[1], i)],)
        elif kf == "mixiter":
            args = (iter([K(s[0], i), K(s[1], i)]),)
        elif kf == "alt":
            args = (K(s[0], i // 2) if i % 2 == 0 else K(s[1], i // 2),)
        elif kf == "concat":
            args = (K(s[0], i) if i < n else K(s[1], i - n),)
        return FunctionArgs(*args, output_name=out_key.name)
    return f


def make_function(name):
    def f(*args):
        return dict(f=name, args=[norm(a) for a in args])
    return f


def real_fusion(case, spec, how):
    """Build the tree with real general_blockwise ops over lazy arrays (no IO), fuse, run fused spec on symbolic blocks."""
    import numpy as np
    import cubed
    import cubed.array_api as xp
    from cubed.core.ops import general_blockwise
    from cubed.core.optimization import multiple_inputs_optimize_dag
    from cubed.primitive.blockwise import ChunkKey, fuse_multiple, map_nested
    arrays = {}
    nblocks = {}
    ops = {o["name"]: o for o in case["ops"]}
    # number of blocks of each array
    for o in case["ops"]:
        for a in o["srcs"]:
            if a.startswith("in"):
                nblocks[a] = o["n"]
        nblocks[o["out"]] = out_blocks(o["kf"], o["n"])
    for a, nb in nblocks.items():
        if a.startswith("in"):
            arrays[a] = xp.asarray(np.zeros(nb * 2), chunks=2, spec=spec)
    name_of = {}       # model array name -> cubed array name
    for o in case["ops"]:
        srcs = [arrays[a] for a in o["srcs"]]
        model_op = dict(o, srcs=[srcs_i.name for srcs_i in srcs])
        nb = nblocks[o["out"]]
        # distinct positional arrays only (rep uses one array twice in the key function)
        uniq = []
        for a in srcs:
            if all(a is not u for u in uniq):
                uniq.append(a)
        kfn = make_key_function(model_op)
        ni = {"pairlist": (2,), "pairiter": (2,)}.get(o["kf"])
        if o["kf"] in ("mixlist", "mixiter"):
            ni = (1,) * len(uniq)
        kw = {}
        if ni:
            kw["num_input_blocks"] = ni
        out = general_blockwise(make_function(o["name"]), kfn, *uniq, shapes=[(nb * 2,)], dtypes=[np.float64], chunkss=[((2,) * nb,)],
                                **kw)
        arrays[o["out"]] = out
    top = arrays[case["ops"][-1]["out"]]
    for a, arr in arrays.items():
        name_of[arr.name] = a
    dag = top.plan(optimize_graph=False).dag      # unoptimized, finalized copy
    # op node of each model op: the producer of its array
    raw = top._plan.dag
    prod_node = {}
    for o in case["ops"]:
        arrname = arrays[o["out"]].name
        prod_node[o["name"]] = next(iter(raw.predecessors(arrname)))
    always = [prod_node[o["name"]] for o in case["ops"] if True]
    never = []
    # an op's predecessors are fused iff the model says fused: force fusion at every op whose sources include a fused producer
    fused_arrays = {o["out"] for o in case["ops"] if o["fused"]}
    from cubed.core.optimization import fuse_predecessors, predecessor_ops_and_arrays
    import networkx as nx
    g = raw.copy()
    # mark unfused predecessors as not fusable with successors (the model's `fused` flag is the ground truth)
    nodes = dict(g.nodes(data=True))
    import copy as _copy
    for o in case["ops"]:
        if not o["fused"]:
            po = nodes[prod_node[o["name"]]]["primitive_op"]
            po2 = _copy.copy(po)
            po2.fusable_with_successors = False
            nodes[prod_node[o["name"]]]["primitive_op"] = po2
    for name in list(nx.topological_sort(g)):
        if name.startswith("array-") or "primitive_op" not in dict(g.nodes(data=True)).get(name, {}):
            continue
        g = fuse_predecessors(g, name, array_names=[top.name], always_fuse=[name], max_total_source_arrays=10 ** 6,
                              max_total_num_input_blocks=None)
    fnodes = dict(g.nodes(data=True))
    cons = prod_node[case["consumer"]]
    if cons not in fnodes:
        raise MachineryError("consumer op vanished from the fused DAG")
    spec_f = fnodes[cons]["primitive_op"].pipeline.config
    terms = []
    for b in case["blocks"]:
        keys = spec_f.back_key_function(ChunkKey("out", (b,)))
        fargs = map_nested(lambda k: dict(blk=name_of.get(k.name, k.name), i=k.coords[0]), keys)
        terms.append(norm(spec_f.function(*fargs.args)))
    removed = len([n for n in raw.nodes if n not in g.nodes])
    return terms, removed


def canon(t):
    return json.dumps(t, sort_keys=True)


def run(chk):
    import cubed
    warnings.simplefilter("ignore")
    rng = random.Random(chk.seed + 1501)
    chk.rule = ("(1) random index patterns (<= 4 symbols, <= 3 arguments of <= 3 dims, block counts in {1,2,3}, broadcast dims, "
                "contractions, new axes, inconsistent counts), every output block; (2) random fusion trees of depth <= 3 over 9 "
                "key-function shapes with per-predecessor fused/unfused choice; expected values computed by TLC from "
                "Blockwise.tla; non-trivial = (1) some argument broadcast/contracted or declined, (2) >= 1 predecessor fused; "
                "distinct = distinct case")
    n1 = 3000 if chk.tier == "quick" else 60000
    n2 = 400 if chk.tier == "quick" else 8000
    # ---- (1)
    cases = gen_index_cases(rng, n1)
    B = 3000
    for off in range(0, len(cases), B):
        batch = cases[off:off + B]
        for i, c in enumerate(batch):
            c["id"] = i
        exp = tlc_eval(chk, [dict(c, new_axes=[]) for c in batch], f"index-{off // B}")
        for c in batch:
            e = exp[c["id"]]
            r = real_index(c)
            nontriv = e["declined"] or any(nb == 1 for a in c["args"] for nb in a["nb"])
            chk.case(key=("index", canon([c["out"], c["args"], sorted(c["new_axes"])])), nontrivial=nontriv,
                     sample=dict(kind="index", out=c["out"], args=c["args"], new_axes=c["new_axes"], declined=e["declined"],
                                 keys_of_first_block=(e["keys"][0] if e["keys"] else None)) if c["id"] % 1500 == 7 else None)
            chk.trace_validated()
            if e["declined"] != r["declined"]:
                chk.fail_or_known(f"index pattern out={c['out']} args={c['args']} new_axes={c['new_axes']}: reference "
                                  f"{'declines' if e['declined'] else 'accepts'}, cubed {'declines' if r['declined'] else 'accepts'}",
                                  replay=c, kind="index-decline")
            elif not e["declined"] and canon(e["keys"]) != canon(r["keys"]):
                k = next(i for i in range(len(c["blocks"])) if canon(e["keys"][i]) != canon(r["keys"][i]))
                chk.violation(f"index pattern out={c['out']} args={c['args']}: block {c['blocks'][k]} reads {r['keys'][k]}, "
                              f"reference says {e['keys'][k]}", replay=c)
    # ---- (2)
    fcases = gen_fusion_cases(rng, n2)
    spec = cubed.Spec(work_dir=tempfile.gettempdir(), allowed_mem="1GB", reserved_mem=0)
    for off in range(0, len(fcases), 2000):
        batch = fcases[off:off + 2000]
        for i, c in enumerate(batch):
            c["id"] = i
        exp = tlc_eval(chk, batch, f"fusion-{off // 2000}")
        for c in batch:
            e = exp[c["id"]]
            try:
                terms, removed = real_fusion(c, spec, "multiple")
            except MachineryError:
                raise
            except Exception as ex:
                chk.case(key=("fusion", canon(c["ops"])))
                chk.violation(f"fusing tree {[(o['name'], o['kf'], o['srcs'], o['fused']) for o in c['ops']]} failed: "
                              f"{type(ex).__name__}: {str(ex)[:200]}", replay=c)
                continue
            chk.case(key=("fusion", canon([(o["kf"], o["fused"], len(o["srcs"])) for o in c["ops"]]), c["blocks"][-1]),
                     nontrivial=removed > 0,
                     sample=dict(kind="fusion", ops=[(o["name"], o["kf"], o["srcs"], o["fused"]) for o in c["ops"]],
                                 term_of_block0=e["terms"][0]) if c["id"] % 150 == 3 else None)
            chk.trace_validated()
            if canon(e["terms"]) != canon(terms):
                k = next(i for i in range(len(terms)) if canon(e["terms"][i]) != canon(terms[i]))
                chk.violation(f"fused tree {[(o['name'], o['kf'], o['srcs'], o['fused']) for o in c['ops']]}: block {c['blocks'][k]} "
                              f"computes {canon(terms[k])[:300]} but unfused semantics is {canon(e['terms'][k])[:300]}", replay=c)
    chk.exhaustive = False


if __name__ == "__main__":
    sys.exit(main(run, "C15"))
