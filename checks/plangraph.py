"""Shared by C10 / C11 / C20: PlanGraph.tla jobs and TLC-generated histories."""
import json
import re

from harness.core import MachineryError
from harness.tlc import run_tlc


def p1(chk, two_procs=False, thorough=False):
    c = dict(Procs='{"p1"}', MaxH=4, Targets="{1}", MaxSteps=6 if not thorough else 7, WithResume=True)
    r = run_tlc("PlanGraph", cfg=dict(spec="Spec", constants=c, invariants=["ValueFixedModuloKnown"], view="View", deadlock=False),
                timeout=3000, coverage=True)
    chk.add_tlc("PlanGraph/one-process", r)
    if r.violated:
        chk.violation("design model PlanGraph: a value changes WITHOUT going through a listed defect pattern (F8/F9/F10)", replay=c)
    r = run_tlc("PlanGraph", cfg=dict(spec="Spec", constants=c, invariants=["ValueFixed"], view="View", deadlock=False), timeout=3000)
    chk.add_tlc("PlanGraph/as-is-design-violates-ValueFixed", r, expect_violation="ValueFixed")
    if two_procs:
        c2 = dict(Procs='{"p1", "p2"}', MaxH=3 if not thorough else 4, Targets="{1}", MaxSteps=5 if not thorough else 6, WithResume=False)
        r = run_tlc("PlanGraph", cfg=dict(spec="Spec", constants=c2, invariants=["ValueFixedModuloKnown"], view="View", deadlock=False),
                    timeout=3000, coverage=True)
        chk.add_tlc("PlanGraph/two-processes", r)
        if r.violated:
            chk.violation("design model PlanGraph (two processes): unlisted way of confusing arrays", replay=c2)


def interesting(hist):
    kinds = [st["a"] for st in hist]
    for k, a in enumerate(kinds):
        if a in ("storelazy", "storeagain", "ship") and ("compute" in kinds[k + 1:] or "computeresume" in kinds[k + 1:]):
            return True
    return False


def histories(chk, n, steps, seed, procs='{"p1"}', maxh=6, targets="{1, 2}", label="histories", resume=False, want=None):
    """TLC -simulate: distinct complete histories (with the model's taint set and its `bad` verdict)."""
    c = dict(Procs=procs, MaxH=maxh, Targets=targets, MaxSteps=steps, WithResume=resume)
    out, seen, dull = [], set(), []
    rounds = 0
    while len(out) < n and rounds < 6:
        r = run_tlc("PlanGraph", cfg=dict(spec="Spec", constants=c, invariants=["Emit"], deadlock=False),
                    simulate=f"num={max(3000, n * 40)}", depth=steps + 1, seed=seed + rounds, workers=1, timeout=900)
        chk.add_tlc(f"PlanGraph/{label}-{rounds}", r)
        for line in r.out.splitlines():
            s = line.strip()
            if s.startswith('"HIST') and s.endswith('"'):
                body = s[5:-1].replace('\\"', '"').replace("\\\\", "\\")
                if body in seen:
                    continue
                seen.add(body)
                hrec = json.loads(body)
                if want is not None and not want(hrec):
                    continue
                # random walks rarely store and then compute: keep mostly the histories that do (the others are kept as a minority)
                if interesting(hrec["hist"]):
                    out.append(hrec)
                else:
                    dull.append(hrec)
                if len(out) >= n:
                    break
        rounds += 1
    out = out[:n] + dull[:max(1, n // 10)]
    if not out:
        raise MachineryError("TLC produced no histories\n" + r.out[-1500:])
    return out


def exhaustive_histories(chk, steps, maxh, targets, label, resume=False):
    """Every history of exactly `steps` calls within the bounds (no VIEW: distinct histories are distinct states)."""
    c = dict(Procs='{"p1"}', MaxH=maxh, Targets=targets, MaxSteps=steps, WithResume=resume)
    r = run_tlc("PlanGraph", cfg=dict(spec="Spec", constants=c, invariants=["Emit"], deadlock=False), workers=1, timeout=3000)
    chk.add_tlc(f"PlanGraph/{label}", r)
    out = []
    for line in r.out.splitlines():
        s = line.strip()
        if s.startswith('"HIST') and s.endswith('"'):
            out.append(json.loads(s[5:-1].replace('\\"', '"').replace("\\\\", "\\")))
    if not out:
        raise MachineryError("TLC produced no histories\n" + r.out[-1500:])
    return out
