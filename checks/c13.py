"""C13 — plan task counts match execution; callbacks see each event exactly once and in order.
P1: DagExec.tla EventsOk over DAG shapes/schedulers with duplicate and zombie executions.
P4: generated programs (+ region stores, multi-output operators, rechunks, fused ops) on the real executors;
    callback stream + advertised num_tasks + iterable length + plan total judged by DagTrace.tla (Focus=C13)."""
import os
import random
import sys

import numpy as np

sys.path.insert(0, os.path.dirname(os.path.dirname(os.path.abspath(__file__))))
from harness.core import main  # noqa
from harness import programs  # noqa
from checks import dagexec_p1, realexec, suitetrace  # noqa


def special_programs(rng, n):
    """Programs the random generator rarely produces: region stores, stores into differently chunked targets,
    multi-output operators, multi-stage rechunks."""
    out = []
    for _ in range(n):
        kind = rng.choice(["region", "region", "region", "full", "unstack", "rechunk2", "scan"])
        r, c = rng.choice([(6, 8), (8, 6), (12, 4), (9, 9)])
        cr, cc = rng.choice([1, 2, 3]), rng.choice([2, 4])
        inp = dict(shape=[r, c], chunks=[cr, cc], dtype="int64", seed=rng.randint(0, 9), pattern="lin", src="asarray")
        if kind == "region":
            steps, inp = programs.region_store_steps(rng)
        elif kind == "full":
            steps = [dict(op="scalar_add", args=[0], kw=dict(k=2)),
                     dict(op="store_full", args=[1], kw=dict(tchunks=[rng.choice([2, 3, 4]), rng.choice([2, 3])]))]
        elif kind == "unstack":
            inp = dict(shape=[3, c], chunks=[rng.choice([1, 3]), cc], dtype="int64", seed=1, pattern="lin", src="asarray")
            steps = [dict(op="unstack", args=[0], kw=dict(axis=0)), dict(op="add", args=[1, 3])]
        elif kind == "rechunk2":
            steps = [dict(op="rechunk", args=[0], kw=dict(chunks=[r, 1])), dict(op="rechunk", args=[1], kw=dict(chunks=[1, c])),
                     dict(op="sum", args=[2], kw=dict(axis=0))]
        else:
            inp = dict(shape=[14], chunks=[2], dtype="int64", seed=1, pattern="lin", src="asarray")
            steps = [dict(op="cumulative_sum", args=[0], kw=dict(axis=0))]
        prog = dict(inputs=[inp], steps=steps, outs=[])
        nv = programs.Interp(np, False).run(prog)
        prog["outs"] = [len(nv) - 1] if kind != "unstack" else [len(nv) - 1, 2]
        out.append((prog, nv))
    return out


def run(chk):
    chk.rule = ("generated programs + region stores / differently chunked targets / multi-output / multi-stage rechunk / scan, "
                "on real executors x options; the recorded callback stream, every operation's advertised num_tasks, the length "
                "of its task iterable and the plan total are validated by DagTrace.tla; non-trivial = >= 2 pipelined "
                "operations; distinct = (executor, options, per-op task counts)")
    dagexec_p1.run(chk, {"sched", "dup"})
    n = 24 if chk.tier == "quick" else 300
    rng = random.Random(chk.seed + 5)
    docs, metas, verdicts = realexec.run_many(chk, "C13", n, wlat=0.0, extra_programs=special_programs(rng, n // 3))
    first_ok = None
    for k, (doc, meta) in enumerate(zip(docs, metas), 1):
        verdict, l = verdicts[k]
        nops = len([o for o in doc["plan"]["ops"] if o["name"] != "create-arrays"])
        chk.case(key=(meta["executor"], str(sorted(meta["options"].items())), meta["optimize_graph"],
                      tuple(o["nt"] for o in doc["plan"]["ops"])), nontrivial=nops >= 2,
                 sample=dict(executor=meta["executor"], options=meta["options"], steps=[s["op"] for s in meta["program"]["steps"]],
                             ops=[(o["name"], o["nt"]) for o in doc["plan"]["ops"]], total=doc["plan"]["total"],
                             verdict=verdict) if k % 5 == 1 else None)
        chk.trace_validated()
        if verdict == "ok" and first_ok is None:
            first_ok = doc
        if verdict != "ok":
            ev = doc["events"][l - 1] if l - 1 < len(doc["events"]) else None
            chk.violation(f"{meta['executor']} {meta['options']}: trace rejected by DagTrace clause {verdict} at event {l}: {ev} "
                          f"ops={[(o['name'], o['nt'], o['nmap']) for o in doc['plan']['ops']]} total={doc['plan']['total']}",
                          replay=dict(meta=meta, clause=verdict, at=l, event=ev, plan=doc["plan"]))
    if first_ok is not None:
        realexec.selftest(chk, "C13", first_ok)
    realexec.report_failed_runs(chk, "C13", metas)
    suitetrace.run(chk, "C13")      # every computation of the repository's own tests, judged by the same monitor
    chk.extra["executors"] = {e: sum(1 for m in metas if m["executor"] == e) for e in set(m["executor"] for m in metas)}


if __name__ == "__main__":
    sys.exit(main(run, "C13"))
