"""Runs under the adversarial sequential executor, turned into documents for spec/TaskTrace.tla."""
import hashlib
import os
import random
import warnings

import numpy as np

from harness import obs, programs, traced
from harness.core import MachineryError
from harness.execs import AdversarialExecutor, CrashNow, RecordingCallback, export_plan
from harness.tlc import validate_traces


def grid_str(shape, dtype, chunks):
    return f"{tuple(int(x) for x in shape)} ; {np.dtype(dtype).name if not isinstance(dtype, str) else dtype} ; {tuple(tuple(int(c) for c in d) for d in chunks)}"


def decl_of_array(x):
    return grid_str(x.shape, x.dtype, x.chunks)


def norm_chunks(shape, chunks):
    out = []
    for n, c in zip(shape, chunks):
        if n == 0:
            out.append((0,))
            continue
        k, r = divmod(n, c)
        out.append((c,) * k + ((r,) if r else ()))
    return tuple(out)


def back_of_path(path):
    """(shape|dtype|chunk grid) of the zarr array stored at path, read with plain zarr; '' if not a plain array."""
    import zarr
    try:
        z = zarr.open_array(path, mode="r")
    except Exception:
        return "", None
    try:
        # for a sharded array the unit cubed reads/writes (and declares as its chunks) is the shard
        ch = norm_chunks(z.shape, getattr(z, "shards", None) or z.chunks)
    except NotImplementedError:
        ch = tuple(tuple(int(c) for c in d) for d in z.read_chunk_sizes)
    return grid_str(z.shape, z.dtype, ch), z


def data_keys(path):
    """All chunk files below an array path: {relative key: sha1}."""
    out = {}
    if not path or not os.path.isdir(path):
        return out
    for root, _, files in os.walk(path):
        for f in files:
            rel = os.path.relpath(os.path.join(root, f), path)
            if obs._is_meta(rel):
                continue
            with open(os.path.join(root, f), "rb") as fh:
                out[rel] = hashlib.sha1(fh.read()).hexdigest()[:12]
    return out


def content_hash(path):
    k = data_keys(path)
    return hashlib.sha1(repr(sorted(k.items())).encode()).hexdigest()[:16] if k else ""


def nkeys_of(a, plan_op_nt):
    """Number of chunk keys the producing operation must write for array record a (from its declared grid)."""
    return a.get("_nkeys", -1)


def map_events(plan, events, named=None):
    """Normalise raw records to TaskTrace events (uniform fields)."""
    idx = traced.path_index(plan)
    paths = sorted(idx, key=len, reverse=True)

    def arr_of(ap):
        ap = os.path.normpath(ap)
        if ap in idx:
            return idx[ap], ""
        for p in paths:
            if ap.startswith(p + os.sep):
                return idx[p], os.path.relpath(ap, p)
        return "", ""
    out = []
    for e in events:
        k = e["k"]
        base = dict(ev="", op="", idx=-1, kind="", arr="", key="", data=False, hit=False, h="", vshape=[], rshape=[], dims=[])
        if k.startswith("cb_"):
            base.update(ev=k[3:], op=e.get("op", ""))
        elif k in ("taskstart", "taskdone"):
            base.update(ev=k, op=e["op"], idx=int(e["idx"]), kind=e["kind"])
        elif k in ("get", "set", "del"):
            ap, kind, chunk = obs.split_key(e["root"], e["key"])
            arr, sub = arr_of(ap)
            key = (sub + "/" + (chunk or "")) if sub else (chunk or "")
            base.update(ev=k, arr=arr, key=key if kind == "data" else os.path.basename(e["key"]), data=(kind == "data"),
                        hit=bool(e.get("hit", False)), h=e.get("h", ""))
            t = e.get("task")
            if t:
                base.update(op=t[0], idx=int(t[1]), kind=t[2])
        elif k == "awrite":
            arr, sub = arr_of(e["arr"])
            dims = e.get("dims")
            rs = e.get("rshape")
            if dims is None or rs is None:
                continue
            base.update(ev="awrite", arr=arr, key=sub, vshape=e["vshape"], rshape=rs, dims=dims)
        else:
            continue
        out.append(base)
    return out


def build(prog, spec):
    import cubed.array_api as xp
    it = programs.Interp(xp, True, spec)
    cv = it.run(prog)
    return cv, it


def array_facts(plan, cv, results, outs, resumed=False, pre=None, target_info=None):
    """Facts per plan array: declared / backing / result metadata, content hash, completeness before (resume)."""
    import cubed
    by_name = {}
    for v in cv:
        if isinstance(v, cubed.Array):
            by_name[v.name] = v
    res_by_name = {}
    if results is not None:
        for o, r in zip(outs, results):
            if isinstance(cv[o], cubed.Array):
                res_by_name[cv[o].name] = r
    recs = []
    for a in plan["arrays"]:
        name = a["name"]
        decl = back = res = ""
        nkeys = -1
        zerod = len(a.get("shape") or []) == 0
        if a["prod"] and a.get("path"):
            back, z = back_of_path(a["path"])
            if name in by_name:
                decl = decl_of_array(by_name[name])
                zerod = by_name[name].ndim == 0
            elif back:
                decl = back          # internal intermediate: no user-visible declaration; only the backing grid is known
            if z is not None:
                try:
                    if a.get("kind") != "LazyZarrArray":
                        # pre-existing target (store / region store): the operation's tasks each write one whole chunk/shard
                        nkeys = (target_info or {}).get(os.path.normpath(a["path"]), {}).get("nkeys", -1)
                    elif getattr(z, "shards", None):
                        nkeys = int(np.prod([-(-n // s) for n, s in zip(z.shape, z.shards)]))
                    else:
                        grid = [len(d) for d in eval(back.split(" ; ")[2])] if back else []
                        nkeys = int(np.prod(grid)) if grid else 1
                    if any(int(n) == 0 for n in z.shape):
                        nkeys = -1        # zero-size array: nothing needs to be stored
                except Exception:
                    nkeys = -1
            if name in res_by_name and name in by_name:
                r = np.asarray(res_by_name[name])
                res = grid_str(r.shape, r.dtype, by_name[name].chunks)
        recs.append(dict(name=name, prod=a["prod"] or "", nkeys=nkeys, decl=decl, back=back, res=res, final="", ref="", rnddup=False,
                         complete=bool(pre.get(name, {}).get("complete", False)) if pre else False, zerod=bool(zerod),
                         path=a.get("path") or ""))
    return recs


def to_doc(plan, events, facts, resumed=False):
    ops = [dict(name=o["name"], nt=o["nt"], computed=o["computed"], outs=[x["name"] for x in o["outs"]]) for o in plan["ops"]]
    arrays = [{k: v for k, v in f.items() if k != "path"} for f in facts]
    return dict(plan=dict(ops=ops, arrays=arrays, resumed=resumed), events=map_events(plan, events))


def run_adversarial(prog, nv, seed, order="shuffle", repeats=0.3, pickle_p=0.0, optimize=True, with_reference=False, recreate=False):
    """Build and run `prog` under the adversarial executor.  Returns dict(doc, meta) or None if declined."""
    import cubed
    warnings.simplefilter("ignore")
    ref_hashes = None
    if with_reference:
        with traced.Session() as s0:
            spec0 = s0.spec(**prog.get('spec', {}))
            try:
                cv0, _ = build(prog, spec0)
            except programs.DECLINE:
                return None
            arrays0 = [cv0[o] for o in prog["outs"]]
            cb0 = RecordingCallback()
            try:
                cubed.compute(*arrays0, executor=AdversarialExecutor(order="fwd"), callbacks=[cb0], optimize_graph=optimize)
            except Exception as e:
                return dict(error=f"reference run failed: {e!r}"[:300])
            plan0 = export_plan(cb0.dag)
            names0 = sorted(a["name"] for a in plan0["arrays"] if a["prod"] and a.get("path"))
            p0 = {a["name"]: a["path"] for a in plan0["arrays"]}
            ref_hashes = [content_hash(p0[n]) for n in names0]
    with traced.Session() as s:
        spec = s.spec(**prog.get('spec', {}))
        try:
            cv, it = build(prog, spec)
        except programs.DECLINE:
            return None
        arrays = [cv[o] for o in prog["outs"]]
        ex = AdversarialExecutor(order=order, repeats=repeats, pickle_p=pickle_p, seed=seed, recreate=recreate)
        res, exc, plan, evs, cb = traced.run_compute(arrays, s, executor=ex, optimize_graph=optimize)
        if plan is None:
            return None if isinstance(exc, ValueError) else dict(error=repr(exc)[:300])
        if exc is not None:
            return dict(error=f"task failed during execution: {exc!r}"[:400], plan=plan)
        facts = array_facts(plan, cv, res, prog["outs"], target_info=getattr(it, 'target_info', None))
        if ref_hashes is not None:
            names = sorted(f["name"] for f in facts if f["prod"] and f["path"])
            fin = {f["name"]: content_hash(f["path"]) for f in facts if f["prod"] and f["path"]}
            if len(names) == len(ref_hashes):
                for n, rh in zip(names, ref_hashes):
                    f = next(x for x in facts if x["name"] == n)
                    f["final"], f["ref"] = fin[n], rh
            else:
                return dict(error="reference build has a different number of arrays")
        ok_vals = all(programs.same(r, nv[o]) for r, o in zip(res, prog["outs"]))
        import cubed as _cubed
        for i, inp in enumerate(prog["inputs"]):
            if inp.get("src") == "random" and isinstance(cv[i], _cubed.Array):
                f = next((x for x in facts if x["name"] == cv[i].name), None)
                if f is not None and f["path"]:
                    hs = list(data_keys(f["path"]).values())
                    f["rnddup"] = len(set(hs)) != len(hs)
        doc = to_doc(plan, evs, facts)
        meta = dict(program=prog, order=order, repeats=repeats, pickle_p=pickle_p, optimize_graph=optimize, seed=seed,
                    executions=len(ex.log), dup=sum(1 for x in ex.log if x[2] != "first"), values_equal_numpy=bool(ok_vals),
                    ntasks=sum(o["nt"] for o in plan["ops"]), events=len(doc["events"]))
        return dict(doc=doc, meta=meta)


def validate(chk, focus, docs, B=8):
    from harness.tlc import validate_traces_parallel
    # long traces first so that the parallel JVMs are balanced
    order = sorted(range(len(docs)), key=lambda i: -len(docs[i]["events"]))
    v, results = validate_traces_parallel("TaskTrace", [docs[i] for i in order], constants=dict(Focus=focus), batch=B, jobs=8)
    for n, r in enumerate(results):
        chk.add_tlc(f"TaskTrace[{focus}]/batch{n}", r)
    if len(v) != len(docs):
        raise MachineryError(f"TaskTrace returned {len(v)} verdicts for {len(docs)} traces")
    return {order[k - 1] + 1: x for k, x in v.items()}
