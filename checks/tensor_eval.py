"""Translate programs (harness/programs.py format) into cases for spec/Tensor.tla and evaluate them with TLC."""
import json
import os
import tempfile

import numpy as np

from harness.core import MachineryError
from harness.tlc import run_tlc

SUPPORTED = {"negative", "abs", "square", "positive", "scalar_add", "scalar_mul", "add", "subtract", "multiply", "maximum", "minimum",
             "lincomb", "less", "equal", "not_equal", "greater_equal", "where", "sum", "prod", "max", "min", "argmax", "argmin",
             "cumulative_sum", "reshape", "permute_dims", "flip", "roll", "concat", "stack", "expand_dims", "squeeze", "broadcast_to",
             "repeat", "index", "rechunk", "tril", "triu", "matmul", "outer", "diff", "split_sum"}


def _axis(ax, nd):
    return (ax % nd) + 1 if nd else 1


def translate(prog, npvals):
    """-> Tensor.tla case dict or None if the program uses something the reference does not cover."""
    ninp = len(prog["inputs"])
    if any(i.get("dtype", "int64") != "int64" or i.get("src") == "random" for i in prog["inputs"]):
        return None
    steps = []
    vi = ninp      # index of the value produced by the current step
    for st in prog["steps"]:
        op = st["op"]
        if op not in SUPPORTED:
            return None
        kw = st.get("kw", {})
        a0 = np.asarray(npvals[st["args"][0]])
        nd = a0.ndim
        p = {}
        if op in ("scalar_add", "scalar_mul"):
            p = dict(k=int(kw["k"]))
        elif op in ("sum", "prod", "max", "min", "split_sum"):
            ax = kw.get("axis")
            axes = list(range(nd)) if ax is None else ([ax] if isinstance(ax, int) else list(ax))
            axes = sorted({_axis(x, nd) for x in axes}, reverse=True)
            p = dict(axes=axes, keepdims=bool(kw.get("keepdims", False)))
            if op == "split_sum":
                op = "sum"
            if nd == 0:
                return None
        elif op in ("argmax", "argmin"):
            if kw.get("axis") is None:
                if nd != 1:
                    return None
                p = dict(axis=1, keepdims=bool(kw.get("keepdims", False)))
            else:
                p = dict(axis=_axis(kw["axis"], nd), keepdims=bool(kw.get("keepdims", False)))
        elif op in ("cumulative_sum", "diff"):
            if op == "diff" and kw.get("n", 1) != 1:
                return None
            p = dict(axis=_axis(kw.get("axis", 0), nd))
        elif op == "reshape":
            p = dict(shape=[int(x) for x in np.asarray(npvals[vi]).shape])
        elif op == "permute_dims":
            p = dict(perm=[int(x) % nd for x in kw["axes"]])
        elif op == "flip":
            ax = kw.get("axis")
            if ax is None or not isinstance(ax, int):
                return None
            p = dict(axis=_axis(ax, nd))
        elif op == "roll":
            if kw.get("axis") is None or not isinstance(kw["axis"], int):
                return None
            p = dict(shift=int(kw["shift"]), axis=_axis(kw["axis"], nd))
        elif op == "concat":
            p = dict(axis=_axis(kw.get("axis", 0), nd))
        elif op == "stack":
            p = dict(axis=(kw.get("axis", 0) % (nd + 1)) + 1)
        elif op == "expand_dims":
            if not isinstance(kw["axis"], int):
                return None
            p = dict(axis=(kw["axis"] % (nd + 1)) + 1)
        elif op == "squeeze":
            if not isinstance(kw["axis"], int):
                return None
            p = dict(axis=_axis(kw["axis"], nd))
        elif op == "broadcast_to":
            p = dict(shape=[int(x) for x in kw["shape"]])
        elif op == "repeat":
            p = dict(repeats=int(kw["repeats"]), axis=_axis(kw["axis"], nd))
        elif op == "index":
            idx = kw["idx"]
            if len(idx) != nd or not all(isinstance(s, list) for s in idx):
                return None
            sl = []
            for s, n in zip(idx, a0.shape):
                start, stop, step = slice(*s).indices(n)
                sl.append(dict(start=int(start), step=int(step), count=len(range(start, stop, step))))
            p = dict(slices=sl)
        elif op in ("tril", "triu"):
            p = dict(k=int(kw.get("k", 0)))
        elif op == "matmul":
            if a0.ndim != 2 or np.asarray(npvals[st["args"][1]]).ndim != 2:
                return None
        elif op == "where":
            pass
        r = np.asarray(npvals[vi])
        if r.dtype.kind not in "biu" or r.size > 64 or r.ndim > 3:
            return None
        if r.size and np.abs(r.astype(np.int64)).max() >= 2 ** 28:
            return None
        steps.append(dict(op=op, args=[int(x) for x in st["args"]], p=p))
        vi += 1
    inputs = []
    for v in npvals[:ninp]:
        v = np.asarray(v)
        if v.size > 64:
            return None
        inputs.append(dict(shape=[int(x) for x in v.shape], data=[int(x) for x in v.reshape(-1)]))
    return dict(inputs=inputs, steps=steps, outs=[int(o) for o in prog["outs"]])


def evaluate(chk, cases, label):
    d = tempfile.mkdtemp(prefix="tensor-")
    try:
        cf = os.path.join(d, "cases.json")
        json.dump(cases, open(cf, "w"))
        r = run_tlc("Tensor", cfg=dict(spec="Spec", deadlock=False), workers=1, timeout=3000, env={"CASE_FILE": cf})
        chk.add_tlc("Tensor/" + label, r)
        out = {}
        for line in r.out.splitlines():
            s = line.strip()
            if s.startswith('"RES') and s.endswith('"'):
                o = json.loads(s[4:-1].replace('\\"', '"').replace("\\\\", "\\"))
                out[o["id"]] = o["outs"]
        if len(out) != len(cases):
            raise MachineryError(f"Tensor.tla evaluated {len(out)} of {len(cases)} programs\n{r.out[-3000:]}")
        return out
    finally:
        import shutil
        shutil.rmtree(d, ignore_errors=True)


def to_numpy(t):
    return np.asarray(t["data"], dtype=np.int64).reshape(t["shape"])
