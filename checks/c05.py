"""C05 — every stored chunk has exactly one writer task, written whole, outputs covered.
P1: DagExec.tla: SingleWriter/Covered/FinalGood over plan shapes; a plan with a shared chunk (read-modify-write) must lose
    an update (vacuity).
P4: layout-stressing programs (multi-stage rechunks under tight budgets, stores into differently chunked / sharded
    targets, region stores, multi-output operators) + random programs under the adversarial sequential executor (exact
    attribution of store records to tasks), judged by TaskTrace.tla (Focus=C05)."""
import os
import random
import sys

sys.path.insert(0, os.path.dirname(os.path.dirname(os.path.abspath(__file__))))
from harness.core import main  # noqa
from harness import programs  # noqa
from checks import dagexec_p1, seqexec, suitetrace  # noqa


def run(chk):
    chk.rule = ("layout families (rechunk x budgets x allow_irregular, store into equal/finer/coarser/coprime/sharded targets, "
                "region stores, multi-output) + random programs, run one task at a time with shuffled order and repeats; "
                "non-trivial = some produced array has >= 2 chunks; distinct = (family, per-op task counts, grids)")
    dagexec_p1.run(chk, {"rmw"})
    rng = random.Random(chk.seed + 501)
    n = 40 if chk.tier == "quick" else 1200
    docs, metas = [], []
    tries = 0
    errors = []
    while len(docs) < n and tries < n * 3:
        tries += 1
        if tries % 4 == 0:
            prog, nv = programs.gen_program(rng, max_steps=5)
        else:
            prog, nv = programs.layouts(rng)
        r = seqexec.run_adversarial(prog, nv, seed=rng.randint(0, 10 ** 6), order="shuffle", repeats=0.15,
                                    optimize=rng.random() < 0.6)
        if r is None:
            continue
        if "doc" not in r:
            errors.append(dict(program=prog, error=r.get("error")))
            continue
        docs.append(r["doc"])
        metas.append(r["meta"])
    verdicts = seqexec.validate(chk, "C05", docs)
    fam = {}
    for k, (doc, meta) in enumerate(zip(docs, metas), 1):
        verdict, l = verdicts[k]
        f = meta["program"].get("family", "random")
        fam[f] = fam.get(f, 0) + 1
        nontriv = any(a["nkeys"] >= 2 for a in doc["plan"]["arrays"])
        chk.case(key=(f, tuple(o["nt"] for o in doc["plan"]["ops"]), tuple(a["back"] for a in doc["plan"]["arrays"])), nontrivial=nontriv,
                 sample=dict(family=f, steps=[s["op"] + str(s.get("kw", "")) for s in meta["program"]["steps"]][:4],
                             spec=meta["program"].get("spec"), ops=[(o["name"], o["nt"]) for o in doc["plan"]["ops"]],
                             executions=meta["executions"], verdict=verdict) if k % 12 == 1 else None)
        chk.trace_validated()
        if verdict != "ok":
            ev = doc["events"][l - 1] if l - 1 < len(doc["events"]) else None
            chk.violation(f"family {f}: trace rejected by TaskTrace clause {verdict} at event {l}: "
                          f"{ {k2: v for k2, v in (ev or {}).items() if v not in ('', [], -1, False)} }",
                          replay=dict(meta=meta, clause=verdict, at=l, event=ev))
        elif not meta["values_equal_numpy"]:
            chk.drift.append(dict(note="result differs from NumPy although the write pattern is clean (C01/C11 judge values)",
                                  program=meta["program"]))
    suitetrace.run(chk, "C05", files=None if chk.tier == "thorough" else suitetrace.QUICK_FILES_WRITES)   # every zarr-level write of the repository's own tests
    chk.extra["families"] = fam
    chk.extra["errors_in_execution"] = errors[:5]
    chk.extra["n_errors_in_execution"] = len(errors)
    # binding self-test
    good = next((d for d, (v, _) in zip(docs, [verdicts[i + 1] for i in range(len(docs))]) if v == "ok" and
                 sum(1 for e in d["events"] if e["ev"] == "set" and e["data"]) >= 3), None)
    if good:
        import copy
        from harness.core import MachineryError
        m1 = copy.deepcopy(good)     # a second task writes a key already written by another task
        sets = [e for e in m1["events"] if e["ev"] == "set" and e["data"] and e["arr"]]
        a = sets[0]
        b = next((e for e in sets if (e["op"], e["idx"]) != (a["op"], a["idx"]) and e["arr"] == a["arr"]), None)
        muts, exp = [], []
        if b is not None:
            b["key"] = a["key"]
            muts.append(m1)
            exp.append("C05:SecondWriterForChunk")
        m2 = copy.deepcopy(good)     # drop one data write: coverage
        s0 = next(e for e in m2["events"] if e["ev"] == "set" and e["data"] and e["arr"])
        key0 = (s0["arr"], s0["key"])
        m2["events"] = [e for e in m2["events"] if not (e["ev"] == "set" and (e["arr"], e["key"]) == key0)]
        muts.append(m2)
        exp.append("C05:OutputsNotCovered")
        v = seqexec.validate(chk, "C05", [good] + muts)
        got = [v[i + 1][0] for i in range(len(muts) + 1)]
        chk.extra["binding_selftest"] = dict(expected=["ok"] + exp, got=got)
        if got != ["ok"] + exp:
            raise MachineryError(f"binding self-test failed: expected {['ok'] + exp} got {got}")
    chk.assumptions += ["one task runs at a time under the harness executor, so store records between TaskStart and TaskDone "
                        "belong to that execution", "zarr LocalStore keys: one key per chunk (or per shard)"]


if __name__ == "__main__":
    sys.exit(main(run, "C05"))
