"""C03 — projected memory is a true upper bound on what every task allocates.
P1: TaskMem.tla: for EVERY operation shape in bounds (1-2 arguments x single/list/iterator x sizes x declared/actual extra x
    fused predecessors) the projection formula (calculate_projected_mem, peak_projected_mem / fuse_multiple) dominates the
    modelled live set under the side condition Safe; without the side condition TLC must find an under-projected shape.
P4: every task of every operation of a catalogue of programs (and their fused plans) is run in-process under tracemalloc
    with multi-megabyte incompressible chunks and a reserved_mem an order of magnitude below one chunk; the measurements are
    judged by MemTrace.tla (peak <= projected <= allowed)."""
import gc
import os
import random
import sys
import tracemalloc
import warnings

import numpy as np

sys.path.insert(0, os.path.dirname(os.path.dirname(os.path.abspath(__file__))))
from harness.core import main, MachineryError  # noqa
from harness import traced  # noqa
from harness.execs import AdversarialExecutor, RecordingCallback, export_plan  # noqa
from harness.tlc import run_tlc, validate_traces_parallel  # noqa

RESERVED = 400_000       # non-data allowance; measured python/zarr noise per task is 40-120 kB, one chunk is >= 2 MB
N = 1000
CH = 500


def catalogue():
    """name -> builder(xp, cubed, a, b) ; a, b are stored 1000x1000 float64 arrays with 500x500 chunks (2 MB per chunk)."""
    import cubed
    import cubed.array_api as xp
    C = {}
    C["add"] = lambda a, b: xp.add(a, b)
    C["negative"] = lambda a, b: xp.negative(a)
    C["add-chain"] = lambda a, b: xp.add(xp.negative(a), xp.multiply(b, b))
    C["fan-in"] = lambda a, b: xp.multiply(xp.add(a, b), xp.subtract(a, b))
    C["astype"] = lambda a, b: xp.astype(a, xp.float32)
    C["less"] = lambda a, b: xp.less(a, b)
    C["where"] = lambda a, b: xp.where(xp.less(a, b), a, b)
    C["sum"] = lambda a, b: xp.sum(a)
    C["sum-axis0"] = lambda a, b: xp.sum(a, axis=0)
    C["sum-split2"] = lambda a, b: xp.sum(a, axis=0, split_every=2)
    C["mean-axis1"] = lambda a, b: xp.mean(a, axis=1)
    C["max"] = lambda a, b: xp.max(a, axis=0)
    C["argmax"] = lambda a, b: xp.argmax(a, axis=1)
    C["var"] = lambda a, b: xp.var(a, axis=0)
    C["cumulative_sum"] = lambda a, b: xp.cumulative_sum(a, axis=0)
    C["matmul"] = lambda a, b: xp.matmul(a, b)
    C["tensordot"] = lambda a, b: xp.tensordot(a, b, axes=1)
    C["outer-sum"] = lambda a, b: xp.add(xp.sum(a, axis=0, keepdims=True), b)
    C["transpose"] = lambda a, b: xp.permute_dims(a, (1, 0))
    C["flip"] = lambda a, b: xp.flip(a, axis=0)
    C["concat"] = lambda a, b: xp.concat([a, b], axis=0)
    C["stack"] = lambda a, b: xp.stack([a, b], axis=0)
    C["reshape"] = lambda a, b: xp.reshape(a, (N * 2, N // 2))
    C["expand_dims"] = lambda a, b: xp.expand_dims(a, axis=0)
    C["squeeze"] = lambda a, b: xp.squeeze(xp.expand_dims(a, axis=0), axis=0)
    C["broadcast_to"] = lambda a, b: xp.broadcast_to(a, (2, N, N))
    C["index-slice"] = lambda a, b: a[10:900, 20:]
    C["index-int"] = lambda a, b: a[3, :]
    C["repeat"] = lambda a, b: xp.repeat(a, 2, axis=0)
    C["tile"] = lambda a, b: xp.tile(a, (2, 1))
    C["rechunk"] = lambda a, b: a.rechunk((N, 250))
    C["rechunk-add"] = lambda a, b: xp.add(a.rechunk((250, N)), 1.0)
    C["tril"] = lambda a, b: xp.tril(a)
    C["clip"] = lambda a, b: xp.clip(a, 0.2, 0.8)
    C["isfinite"] = lambda a, b: xp.isfinite(a)
    C["diff"] = lambda a, b: xp.diff(a, axis=0)
    C["pad"] = lambda a, b: cubed.pad(a, ((1, 1), (0, 0)), mode="constant")
    C["map_blocks"] = lambda a, b: cubed.map_blocks(_sq, a, dtype=a.dtype)
    C["nansum"] = lambda a, b: cubed.nansum(a, axis=0)
    C["vecdot"] = lambda a, b: xp.vecdot(a, b, axis=-1)
    C["take"] = lambda a, b: xp.take(a, xp.asarray(np.array([1, 5, 7, 700]), spec=a.spec), axis=0)
    C["searchsorted-ish"] = lambda a, b: xp.sum(xp.astype(xp.less(a, 0.5), xp.int64), axis=1)
    C["fused-diamond"] = lambda a, b: xp.multiply(xp.add(a, b), xp.add(a, b)) if False else _diamond(xp, a, b)
    C["widen-sum-skinny"] = lambda a, b: xp.sum(_skinny(a, xp.int8), axis=0, dtype=xp.int64)
    C["widen-mean-skinny"] = lambda a, b: xp.mean(_skinny(a, xp.float32), axis=0)
    # two-output operations whose outputs have different chunk sizes (same block grid), in both orders
    C["multiout-big-small"] = lambda a, b: _two_outputs(a, big_first=True)[0]
    C["multiout-small-big"] = lambda a, b: _two_outputs(a, big_first=False)[1]
    # open findings (probes): reported as KNOWN-FINDING, never as violations
    C["unstack"] = lambda a, b: xp.unstack(_rows8(a, xp))[0]
    C["index-step"] = lambda a, b: a[::3, 1:]
    C["roll"] = lambda a, b: xp.roll(a, 7, axis=0)
    C["rechunk-uneven"] = lambda a, b: a.rechunk((700, 300))
    C["widen-sum-u8"] = lambda a, b: xp.sum(xp.astype(a, xp.uint8), axis=0, dtype=xp.uint64)
    return C


def _sq(x):
    return x * x


def _two_outputs(x, big_first):
    """general_blockwise with two outputs on the same block grid: the block widened to complex128 (chunks of x) and one maximum per block
    (1x1 chunks).  The projection must cover the larger output whichever position it is in."""
    from cubed.core.ops import general_blockwise
    from cubed.primitive.blockwise import ChunkKey, FunctionArgs

    def f(block):
        block = np.asarray(block)
        big, small = block.astype(np.complex128), np.max(block, keepdims=True)      # the big output is twice the input's size
        return (big, small) if big_first else (small, big)

    def back_key_function(out_key):
        return FunctionArgs(ChunkKey(x.name, out_key.coords), output_name=out_key.name)
    ones = tuple((1,) * n for n in x.numblocks)
    shapes, chunkss = [x.shape, x.numblocks], [x.chunks, ones]
    if not big_first:
        shapes, chunkss = shapes[::-1], chunkss[::-1]
    dtypes = [np.complex128, np.float64] if big_first else [np.float64, np.complex128]
    return general_blockwise(f, back_key_function, x, shapes=shapes, dtypes=dtypes, chunkss=chunkss, target_stores=[None, None])


def _diamond(xp, a, b):
    y = xp.add(a, b)
    return xp.multiply(y, y)


_SKINNY = {}


def _skinny(a, dtype):
    """A stored (16, 500000) array of `dtype` in (4, 500000) chunks (skinny: the reduced chunk is as large as the input's)."""
    import cubed
    import zarr
    key = (str(dtype), a.spec.work_dir)
    if key not in _SKINNY:
        p = os.path.join(a.spec.work_dir, f"skinny-{np.dtype(dtype).name}.zarr")
        z = zarr.create_array(p, shape=(16, 500000), chunks=(4, 500000), dtype=np.dtype(dtype), compressors=None)
        z[:] = (np.random.default_rng(3).integers(0, 100, (16, 500000))).astype(np.dtype(dtype))
        _SKINNY[key] = p
    return cubed.from_zarr(_SKINNY[key], spec=a.spec)


def _rows8(a, xp):
    # 8 blocks along axis 0
    return xp.reshape(a, (8, N // 8, N)).rechunk((1, N // 8, N))


def make_inputs(work, mode):
    """mode = (compressor, data): ('none', 'random') | ('default', 'compressible') | ('default', 'random')"""
    import zarr
    comp, data = mode
    paths = []
    for k in range(2):
        p = os.path.join(work, f"in{k}-{comp}-{data}.zarr")
        z = zarr.create_array(p, shape=(N, N), chunks=(CH, CH), dtype="f8", compressors=None if comp == "none" else "auto")
        rng = np.random.default_rng(k)
        if data == "random":
            z[:] = rng.random((N, N))
        else:
            z[:] = (rng.integers(0, 4, (N, N)) / 4.0)      # 2 bits of entropy per element: compresses ~30x
        paths.append(p)
    return paths


def measure_program(name, build, optimize, sess, a_path, b_path, mode=("none", "random")):
    import cubed
    spec = sess.spec(allowed_mem="2GB", reserved_mem=RESERVED, zarr_compressor=None if mode[0] == "none" else "auto")
    a = cubed.from_zarr(a_path, spec=spec)
    b = cubed.from_zarr(b_path, spec=spec)
    out = build(a, b)
    arrays = list(out) if isinstance(out, (tuple, list)) else [out]
    records = []
    warmed = set()
    try:
        fp = cubed.plan(*arrays, optimize_graph=optimize)
        projected = {n: d["primitive_op"].projected_mem for n, d in fp.dag.nodes(data=True) if "primitive_op" in d}
    except Exception:
        projected = {}

    def once(run):
        gc.collect()
        tracemalloc.start()
        try:
            base = tracemalloc.get_traced_memory()[0]
            tracemalloc.reset_peak()
            r = run()
            cur, peak = tracemalloc.get_traced_memory()
        finally:
            tracemalloc.stop()
        return r, max(0, peak - base)

    def per_task(op, idx, run):
        if op not in warmed:
            warmed.add(op)
            run()                      # warm-up (imports, caches); tasks are idempotent
        r, peak = once(run)
        # a transient of zarr's IO thread (buffers of the previous read not yet released) can inflate one measurement:
        # an excess counts only if it is reproduced (minimum of three executions of the same idempotent task)
        k = 0
        while op in projected and peak > projected[op] and k < 2:
            r, p2 = once(run)
            peak = min(peak, p2)
            k += 1
        records.append((op, idx, peak))
        return r
    ex = AdversarialExecutor(order="fwd", per_task=per_task)
    cb = RecordingCallback()
    cubed.compute(*arrays, executor=ex, callbacks=[cb], optimize_graph=optimize, _return_in_memory_array=False)
    plan = export_plan(cb.dag)
    nodes = dict(cb.dag.nodes(data=True))
    byop = {o["name"]: o for o in plan["ops"]}
    events = []
    for op, idx, peak in records:
        if op == "create-arrays":
            continue
        o = byop[op]
        events.append(dict(op=op, func=str(nodes[op].get("func_name", "")), idx=int(idx), projected=int(o["projected"]),
                           reserved=int(o["reserved"]), allowed=int(o["allowed"]), peak=int(peak)))
    return events


def run(chk):
    import cubed
    import cubed.random
    warnings.simplefilter("ignore")
    chk.rule = ("catalogue of array functions on 1000x1000 float64 arrays in 500x500 chunks (2 MB, incompressible random data read "
                "from Zarr), optimized and unoptimized plans, every task measured under tracemalloc after one warm-up execution; "
                "reserved_mem = 400 kB; non-trivial = the operation reads or writes at least one full chunk; distinct = (program, "
                "optimize, operation)")
    c = dict(MaxArgs=2, MaxK=2, MaxSize=2, MaxExtra=4, ReadCopies=1, WriteCopies=1, Reserved=1, OutRule='"max"')
    r = run_tlc("TaskMem", cfg=dict(spec="Spec", constants=c, invariants=["Dominates"], deadlock=False), timeout=1800)
    chk.add_tlc("TaskMem/Dominates", r)
    if r.violated:
        chk.violation("accounting model TaskMem: the projection formula does not dominate the modelled live set", replay=c)
    r = run_tlc("TaskMem", cfg=dict(spec="Spec", constants=c, invariants=["DominatesUnconditionally"], deadlock=False), timeout=1800)
    chk.add_tlc("TaskMem/without-side-condition", r, expect_violation=True)
    r = run_tlc("TaskMem", cfg=dict(spec="Spec", constants=dict(c, OutRule='"last"', MaxArgs=1, MaxSize=3), invariants=["Dominates"], deadlock=False), timeout=1800)
    chk.add_tlc("TaskMem/switch-OutRule=last", r, expect_violation="Dominates")
    if chk.tier == "thorough":
        c2 = dict(c, MaxK=3, MaxSize=2, MaxExtra=6)
        r = run_tlc("TaskMem", cfg=dict(spec="Spec", constants=c2, invariants=["Dominates"], deadlock=False), timeout=3000)
        chk.add_tlc("TaskMem/Dominates-K3", r)
    cat = catalogue()
    names = list(cat)
    rng = random.Random(chk.seed + 301)
    probes = ["unstack", "index-step", "roll", "take", "argmax", "rechunk-uneven", "widen-sum-u8", "fused-diamond", "widen-sum-skinny",
              "widen-mean-skinny"]
    if chk.tier == "quick":
        always = ["multiout-big-small", "multiout-small-big"]
        regular = [n for n in names if n not in probes and n not in always]
        names = rng.sample(regular, 16) + always + probes
    docs, metas = [], []
    MODES = [("none", "random"), ("default", "compressible")]
    with traced.Session() as s0:
        inputs = {m: make_inputs(s0.work, m) for m in MODES + [("default", "random")]}
        jobs = []
        for name in names:
            for optimize in ((True, False) if (chk.tier == "thorough" or name in probes) else (rng.random() < 0.6,)):
                for mode in (MODES if chk.tier == "thorough" else (rng.choice(MODES),)):
                    jobs.append((name, optimize, mode))
        # probe of the open finding F20 (default compressor + incompressible data + small output)
        jobs.append(("isfinite", False, ("default", "random")))
        for name, optimize, mode in jobs:
            with traced.Session() as s:
                try:
                    events = measure_program(name, cat[name], optimize, s, *inputs[mode], mode=mode)
                except Exception as e:
                    chk.drift.append(dict(note="program failed", program=name, error=repr(e)[:200]))
                    continue
            if events:
                docs.append(dict(events=events))
                metas.append(dict(program=name, optimize_graph=optimize, compressor=mode[0], data=mode[1]))
    v, results = validate_traces_parallel("MemTrace", docs, batch=10, jobs=4)
    for n, r in enumerate(results):
        chk.add_tlc(f"MemTrace/batch{n}", r)
    if len(v) != len(docs):
        raise MachineryError("MemTrace returned too few verdicts")
    table = []
    for k, (doc, meta) in enumerate(zip(docs, metas), 1):
        verdict, l = v[k]
        worst = max(doc["events"], key=lambda e: e["peak"] / max(1, e["projected"]))
        ratio = worst["peak"] / max(1, worst["projected"])
        table.append(dict(program=meta["program"], optimize=meta["optimize_graph"], compressor=meta["compressor"], data=meta["data"],
                          tasks=len(doc["events"]), worst_op=worst["func"],
                          peak=worst["peak"], projected=worst["projected"], ratio=round(ratio, 3)))
        for e in {(e["op"]): e for e in doc["events"]}.values():
            chk.case(key=(meta["program"], meta["optimize_graph"], meta["compressor"], e["func"], e["projected"]), nontrivial=e["peak"] >= 2_000_000)
        chk.trace_validated()
        if len(chk.samples) < 6 and k % 5 == 1:
            chk.samples.append(dict(program=meta["program"], optimize=meta["optimize_graph"], measurements=doc["events"][:3]))
        if verdict != "ok":
            e = doc["events"][l - 1]
            chk.fail_or_known(f"program {meta['program']} (optimize_graph={meta['optimize_graph']}): task {e['idx']} of {e['op']} "
                              f"[{e['func']}] allocated {e['peak']} bytes, projected {e['projected']} (reserved {e['reserved']}): "
                              f"{verdict}", replay=dict(meta=meta, event=e), program=meta["program"], func=e["func"],
                              optimize=meta["optimize_graph"], ratio=e["peak"] / max(1, e["projected"]),
                              compressor=meta["compressor"], data=meta["data"], over=e["peak"] - e["projected"])
    chk.extra["measured_programs"] = table
    chk.assumptions += ["tracemalloc sees NumPy buffers and byte strings allocated through Python's allocators; memory allocated by C "
                        "libraries outside them (blosc scratch) is not seen", "reserved_mem 400 kB covers interpreter/zarr object noise"]


if __name__ == "__main__":
    sys.exit(main(run, "C03"))
