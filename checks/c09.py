"""C09 — resume after a crash gives the same result and never trusts an incomplete array.
P1: DagExec.tla with MayCrash (crash after any step: between tasks and between the chunk writes of one task), Resume =
    already_computed; switches ResumeRule="any" and CreateMode="w" must violate; the pre-filled-target design defect (F13)
    is carved out by the taint StaleByF13.
P2/P4: for generated programs (fused / unfused, multi-output, structured-dtype intermediates, multi-chunk rechunk tasks) the
    harness crashes the computation at task granularity and at chunk-write granularity (before/after the k-th data set),
    inspects storage with plain directory listing, resumes with compute(resume=True) under a recording executor and
    validates the resumed run with TaskTrace.tla (Focus=C09); the result must equal NumPy / the uninterrupted run, or the
    resume must be refused before any task (only plans with structured-dtype arrays may refuse)."""
import os
import random
import sys
import warnings

import numpy as np

sys.path.insert(0, os.path.dirname(os.path.dirname(os.path.abspath(__file__))))
from harness.core import main, MachineryError  # noqa
from harness import obs, programs, traced  # noqa
from harness.execs import AdversarialExecutor, CrashNow, RecordingCallback, export_plan  # noqa
from checks import dagexec_p1, seqexec  # noqa


def special(rng):
    """Families where completeness is subtle: multi-output operators, structured intermediates (mean/var/argmax unfused),
    0-d outputs, multi-chunk tasks (rechunk), qr."""
    r, c = rng.choice([(6, 4), (8, 3), (4, 6)])
    inp = dict(shape=[r, c], chunks=[rng.choice([1, 2, 3]), rng.choice([1, 2, c])], dtype="float64", seed=rng.randint(0, 9),
               pattern="lin", src="asarray")
    kind = rng.choice(["unstack", "mean", "var", "argmax", "sum0d", "rechunk", "qr", "multi2", "store_prefilled", "store_empty",
                       "store_sharded", "store_sharded"])
    if kind == "unstack":
        inp = dict(shape=[3, c], chunks=[rng.choice([1, 3]), rng.choice([1, 2])], dtype="float64", seed=2, pattern="lin", src="asarray")
        steps, outs = [dict(op="unstack", args=[0], kw=dict(axis=0)), dict(op="lincomb", args=[1, 3])], [4]
    elif kind == "mean":
        steps, outs = [dict(op="mean", args=[0], kw=dict(axis=0))], [1]
    elif kind == "var":
        steps, outs = [dict(op="var", args=[0], kw=dict(axis=1))], [1]
    elif kind == "argmax":
        steps, outs = [dict(op="argmax", args=[0], kw=dict(axis=0))], [1]
    elif kind == "sum0d":
        steps, outs = [dict(op="negative", args=[0]), dict(op="sum", args=[1])], [2]
    elif kind == "rechunk":
        steps, outs = [dict(op="scalar_add", args=[0], kw=dict(k=1)), dict(op="rechunk", args=[1], kw=dict(chunks=[r, 1])),
                       dict(op="sum", args=[2], kw=dict(axis=0))], [3]
    elif kind in ("store_prefilled", "store_empty"):
        inp = dict(shape=[6, 4], chunks=[2, 4], dtype="int64", seed=rng.randint(0, 9), pattern="lin", src="asarray")
        kw = dict(tchunks=[2, 4])
        if kind == "store_prefilled":
            kw["prefill"] = -5
        steps, outs = [dict(op="scalar_add", args=[0], kw=dict(k=1)), dict(op="store_full", args=[1], kw=kw)], [2]
    elif kind == "store_sharded":
        # sharded target: one store key per shard; zarr's nchunks_initialized counts all chunks of every stored shard (also the
        # ones of a ragged edge shard that lie outside the array), so "complete" must be judged in shards
        shp = rng.choice([[10, 8], [10, 10], [8, 8], [6, 10], [12, 10]])
        inp = dict(shape=shp, chunks=[4, 4], dtype="int64", seed=rng.randint(0, 9), pattern="lin", src="asarray")
        steps, outs = [dict(op="scalar_add", args=[0], kw=dict(k=1)),
                       dict(op="store_full", args=[1], kw=dict(tchunks=[2, 2], tshards=[4, 4]))], [2]
    elif kind == "qr":
        inp = dict(shape=[8, 2], chunks=[4, 2], dtype="float64", seed=3, pattern="lin", src="asarray")
        steps, outs = [dict(op="qr", args=[0]), dict(op="matmul", args=[1, 2])], [3]
    else:
        steps, outs = [dict(op="negative", args=[0]), dict(op="square", args=[1]), dict(op="sum", args=[2], kw=dict(axis=0))], [1, 3]
    prog = dict(inputs=[inp], steps=steps, outs=outs, family=kind)
    with np.errstate(all="ignore"):
        nv = programs.Interp(np, False).run(prog)
    return prog, nv


def storage_state(plan):
    """Per produced array: does metadata exist, how many data keys exist, is it complete (plain directory listing)."""
    out = {}
    for a in plan["arrays"]:
        if not a["prod"] or not a.get("path"):
            continue
        p = a["path"]
        keys = seqexec.data_keys(p)
        meta = os.path.exists(os.path.join(p, "zarr.json"))
        exp = None
        if a.get("chunks") is not None:
            unit = a.get("shards") or a["chunks"]          # one store key per shard if the array is sharded
            grid = [(-(-n // ch) if n > 0 else 0) for n, ch in zip(a["shape"], unit)]
            exp = int(np.prod(grid)) if grid else 1
            if a.get("nfields"):
                exp *= a["nfields"]
        out[a["name"]] = dict(meta=meta, nkeys=len(keys), expected=exp, keys=set(keys),
                              complete=bool(meta and exp is not None and len(keys) == exp))
    return out


def one_crash_point(prog, nv, optimize, cp):
    """cp = ('task', k) | ('set', k, 'before'|'after').  Returns dict(doc=..., meta=...) | dict(skip=...) | dict(violation=...)"""
    import cubed
    warnings.simplefilter("ignore")
    with traced.Session() as s:
        spec = s.spec(**prog.get("spec", {}))
        try:
            cv, it = seqexec.build(prog, spec)
        except programs.DECLINE:
            return dict(skip="declined")
        arrays = [cv[o] for o in prog["outs"]]
        # ---- first run, crashing
        ex1 = AdversarialExecutor(order="fwd", crash_after_tasks=cp[1] if cp[0] == "task" else None)
        if cp[0] == "set":
            obs.CRASH.update(at=cp[1], n=0, when=cp[2])
        cb1 = RecordingCallback()
        crashed = False
        try:
            cubed.compute(*arrays, executor=ex1, callbacks=[cb1], optimize_graph=optimize)
        except CrashNow:
            crashed = True
        except obs.InjectedCrash:
            crashed = True
        except Exception as e:
            obs.CRASH.update(at=None)
            return dict(skip=f"first run failed for another reason: {e!r}"[:200])
        finally:
            obs.CRASH.update(at=None)
        if not crashed:
            return dict(skip="crash point beyond the end")
        plan1 = export_plan(cb1.dag)
        # zarr writes the chunks of one block concurrently on its IO loop: a write that was in flight when the injected crash
        # propagated may still land (in this process it is not killed).  That is the same as crashing a little later, so the
        # storage is inspected once it is quiescent.
        import time
        pre = storage_state(plan1)
        for _ in range(50):
            time.sleep(0.02)
            again = storage_state(plan1)
            if {k: v["keys"] for k, v in again.items()} == {k: v["keys"] for k, v in pre.items()}:
                break
            pre = again
        structured = any(a.get("nfields") for a in plan1["arrays"])
        # ---- resume
        s.events(clear=True)
        ex2 = AdversarialExecutor(order="fwd")
        res, exc, plan2, evs, cb2 = traced.run_compute(arrays, s, executor=ex2, optimize_graph=optimize, resume=True)
        meta = dict(program=prog, optimize_graph=optimize, crash_point=list(cp), tasks_before_crash=len(ex1.log),
                    pre={k: dict(meta=v["meta"], nkeys=v["nkeys"], expected=v["expected"], complete=v["complete"]) for k, v in pre.items()})
        if exc is not None:
            refused_before_any_task = not ex2.log
            if structured and refused_before_any_task and type(exc).__name__ in ("NotImplementedError", "GroupNotFoundError"):
                return dict(refused=True, meta=meta)
            return dict(violation=f"resume raised {type(exc).__name__}: {str(exc)[:150]} "
                                  f"(structured arrays in plan: {structured}, tasks run before the error: {len(ex2.log)})", meta=meta)
        post = storage_state(plan2)
        wiped = [(n, k) for n, v in pre.items() for k in v["keys"] if n in post and k not in post[n]["keys"]]
        ok_vals = all(programs.same(r, nv[o]) for r, o in zip(res, prog["outs"]))
        facts = seqexec.array_facts(plan2, cv, res, prog["outs"], resumed=True, pre=pre, target_info=getattr(it, "target_info", None))
        doc = seqexec.to_doc(plan2, evs, facts, resumed=True)
        meta.update(values_equal_numpy=bool(ok_vals), wiped=wiped[:5], ops_run=sorted(set(x[0] for x in ex2.log)),
                    ops_skipped=[o["name"] for o in plan2["ops"] if o["computed"]])
        return dict(doc=doc, meta=meta)


def count_points(prog, optimize):
    """(#tasks, #data sets) of an uninterrupted run."""
    import cubed
    with traced.Session() as s:
        spec = s.spec(**prog.get("spec", {}))
        try:
            cv, it = seqexec.build(prog, spec)
        except programs.DECLINE:
            return None
        ex = AdversarialExecutor(order="fwd")
        try:
            cubed.compute(*[cv[o] for o in prog["outs"]], executor=ex, optimize_graph=optimize)
        except Exception:
            return None
        evs = s.events()
        nsets = sum(1 for e in evs if e["k"] == "set" and not e.get("meta"))
        return len(ex.log), nsets


def run(chk):
    chk.rule = ("programs (random, structured DAGs, multi-output / structured-dtype / 0-d / rechunk / qr families) x optimize on/off x "
                "crash points at task granularity and at chunk-write granularity (before and after the k-th data set); resumed "
                "run validated by TaskTrace.tla; non-trivial = the crash left at least one array partially written or one "
                "array complete; distinct = (program, crash point)")
    dagexec_p1.run(chk, {"crash"})
    rng = random.Random(chk.seed + 901)
    nprog = 10 if chk.tier == "quick" else 120
    per = 8 if chk.tier == "quick" else 10 ** 6
    docs, metas = [], []
    refused = 0
    done_prog = 0
    tries = 0
    # deterministic part of every tier: stores into SHARDED targets at every crash point.  (10, 8) with chunks (2, 2) and shards
    # (4, 4) is the geometry where 5 of 6 stored shards make zarr's nchunks_initialized equal nchunks (finding F27); in the second
    # program the ragged sharded target is complete while a later operation is still running, so it must not be recomputed.
    sh1 = dict(inputs=[dict(shape=[10, 8], chunks=[4, 4], dtype="int64", seed=4, pattern="lin", src="asarray")],
               steps=[dict(op="scalar_add", args=[0], kw=dict(k=1)),
                      dict(op="store_full", args=[1], kw=dict(tchunks=[2, 2], tshards=[4, 4]))], outs=[2], family="store_sharded")
    sh2 = dict(inputs=[dict(shape=[10, 10], chunks=[4, 4], dtype="int64", seed=5, pattern="lin", src="asarray")],
               steps=[dict(op="scalar_add", args=[0], kw=dict(k=1)),
                      dict(op="store_full", args=[1], kw=dict(tchunks=[2, 2], tshards=[4, 4])),
                      dict(op="negative", args=[0]), dict(op="sum", args=[3], kw=dict(axis=0))], outs=[2, 4], family="store_sharded_then")
    # a multi-output operation (unstack: three outputs per task) at every crash point: a crash between the writes of its outputs
    # leaves the first output complete and the others not
    mo = dict(inputs=[dict(shape=[3, 4], chunks=[3, 2], dtype="float64", seed=2, pattern="lin", src="asarray")],
              steps=[dict(op="unstack", args=[0], kw=dict(axis=0)), dict(op="lincomb", args=[1, 3])], outs=[4], family="multi-output-all")
    forced = [(sh1, programs.Interp(np, False).run(sh1), True), (sh2, programs.Interp(np, False).run(sh2), False),
              (mo, programs.Interp(np, False).run(mo), False)]
    nprog += len(forced)
    while done_prog < nprog and tries < nprog * 4:
        tries += 1
        m = tries % 3
        if forced:
            prog, nv, optimize = forced.pop(0)
        else:
            prog, nv = special(rng) if m != 2 else (programs.structured(rng) if rng.random() < 0.5 else programs.gen_program(rng, max_steps=4))
            optimize = rng.random() < 0.5 if prog.get("family") not in ("mean", "var", "argmax") else rng.random() < 0.3
        cnt = count_points(prog, optimize)
        if cnt is None or cnt[0] > 60:
            continue
        ntasks, nsets = cnt
        pts = [("task", k) for k in range(1, ntasks)] + [("set", k, w) for k in range(1, nsets + 1) for w in ("before", "after")]
        if prog.get("family") == "store_sharded_then":
            pts = [p for p in pts if p[0] == "task"]
        elif len(pts) > per and prog.get("family") not in ("store_sharded", "multi-output-all"):      # small plans: every crash point
            pts = rng.sample(pts, per)
        done_prog += 1
        for cp in pts:
            r = one_crash_point(prog, nv, optimize, cp)
            if "skip" in r:
                continue
            if r.get("refused"):
                refused += 1
                chk.case(key=(str(prog["steps"]), str(cp), "refused"), nontrivial=True)
                continue
            if "violation" in r:
                chk.case(key=(str(prog["steps"]), str(cp)), nontrivial=True)
                chk.violation(f"crash at {cp}: {r['violation']}", replay=r["meta"])
                continue
            docs.append(r["doc"])
            metas.append(r["meta"])
    # probe of the open finding F13: always exercised, so that the KNOWN-FINDING line reflects the current tree
    probe = dict(inputs=[dict(shape=[6, 4], chunks=[2, 4], dtype="int64", seed=1, pattern="lin", src="asarray")],
                 steps=[dict(op="scalar_add", args=[0], kw=dict(k=1)), dict(op="store_full", args=[1], kw=dict(tchunks=[2, 4], prefill=-5))],
                 outs=[2], family="store_prefilled")
    pnv = programs.Interp(np, False).run(probe)
    for cp in (("task", 2), ("task", 3)):
        r = one_crash_point(probe, pnv, True, cp)
        if "doc" in r:
            docs.append(r["doc"])
            metas.append(r["meta"])
    verdicts = seqexec.validate(chk, "C09", docs)
    for k, (doc, meta) in enumerate(zip(docs, metas), 1):
        verdict, l = verdicts[k]
        partial = any(0 < v["nkeys"] < (v["expected"] or 0) for v in meta["pre"].values())
        somecomplete = any(v["complete"] for v in meta["pre"].values())
        chk.case(key=(str(meta["program"]["steps"]), str(meta["crash_point"]), meta["optimize_graph"]), nontrivial=partial or somecomplete,
                 sample=dict(family=meta["program"].get("family", "random"), steps=[s["op"] for s in meta["program"]["steps"]],
                             crash_point=meta["crash_point"], pre=meta["pre"], ops_run=meta["ops_run"], ops_skipped=meta["ops_skipped"],
                             verdict=verdict) if k % 17 == 1 else None)
        chk.trace_validated()
        if verdict != "ok":
            ev = doc["events"][l - 1] if l - 1 < len(doc["events"]) else None
            chk.violation(f"crash at {meta['crash_point']}: resumed run rejected by TaskTrace clause {verdict} at event {l} "
                          f"{ {k2: v for k2, v in (ev or {}).items() if v not in ('', [], -1, False)} }; pre={meta['pre']} "
                          f"skipped={meta['ops_skipped']} run={meta['ops_run']}", replay=meta)
        elif not meta["values_equal_numpy"]:
            chk.fail_or_known(f"crash at {meta['crash_point']}: resumed computation returned values different from the "
                              f"uninterrupted result; skipped={meta['ops_skipped']} pre={meta['pre']}", replay=meta,
                              resumed=True, kind="values",
                              prefilled_target=any(st["op"] == "store_full" and st.get("kw", {}).get("prefill") is not None
                                                   for st in meta["program"]["steps"]))
        elif meta["wiped"]:
            chk.violation(f"crash at {meta['crash_point']}: chunks present before the resume are gone afterwards: {meta['wiped']}",
                          replay=meta)
    chk.extra["crash_points"] = len(docs) + refused
    chk.extra["refused_up_front"] = refused
    chk.extra["programs"] = done_prog
    chk.assumptions += ["a crash is modelled as the client stopping between two tasks or inside a data `set` (before or after it "
                        "took effect); partially written single chunks (torn writes) are excluded by the store's atomic rename"]


if __name__ == "__main__":
    sys.exit(main(run, "C09"))
