"""C08 — task failures are retried and surfaced, never dropped; one result per task.
P1: MapUnordered.tla model-checked (all invariants + termination), vacuity switches.
P4: real async_map_unordered + real retry wrapper under scripted virtual-time environments; traces judged by
    MapMonitor.tla (verdict) and by the same clauses in Python (cross-check: disagreement = machinery error).
End-to-end: IO faults injected under the real ThreadsExecutor (see e2e part)."""
import os
import random
import sys

sys.path.insert(0, os.path.dirname(os.path.dirname(os.path.abspath(__file__))))
from harness.core import main, MachineryError  # noqa
from harness.tlc import run_tlc, validate_traces  # noqa
from harness import vloop  # noqa

INV = ["NoCrash", "AtMostOnce", "DoneMeansAll", "RaiseMeansLost", "TwoSubmissions", "AttemptBound"]


def model_check(chk):
    base = dict(N=3, Retries=1, UseBackups=True, BatchSize=2, MinTasks=2, FixStartTimes=True, FixTwins=True, KeepPairing=True)
    jobs = [("N3R1B2", base, True),
            ("N3R0B0", dict(base, Retries=0, BatchSize=0), True),
            ("N3R2B3", dict(base, Retries=2, BatchSize=3, MinTasks=1), True),
            ("N3nobackup", dict(base, UseBackups=False), True),
            ("N3R1B1M1", dict(base, BatchSize=1, MinTasks=1), True),
            ("N4R1B2M1", dict(base, N=4, MinTasks=1), False)]
    if chk.tier == "thorough":
        jobs.append(("N4R2B2", dict(base, N=4, Retries=2), True))
        jobs.append(("N5R1B3M2", dict(base, N=5, Retries=1, BatchSize=3, MinTasks=2), False))
    for name, c, live in jobs:
        r = run_tlc("MapUnordered", cfg=dict(spec="Spec", constants=c, invariants=INV,
                                             properties=["Terminates"] if live else [], deadlock=False),
                    coverage=True, timeout=3000)
        rec = chk.add_tlc("MapUnordered/" + name, r)
        if r.violated:
            chk.violation(f"mechanism model MapUnordered[{name}] violates {r.violated}", replay=dict(job=name, constants=c))
        never = [a for a, (n, _) in r.coverage.items() if n == 0 and not (a == "Refill" and c["BatchSize"] == 0)]
        rec["actions_never_taken"] = never
    # vacuity: the pre-fix designs must violate
    r = run_tlc("MapUnordered", cfg=dict(spec="Spec", constants=dict(base, FixTwins=False), invariants=INV, deadlock=False))
    chk.add_tlc("MapUnordered/switch-FixTwins=FALSE", r, expect_violation=True)
    r = run_tlc("MapUnordered", cfg=dict(spec="Spec", constants=dict(base, N=3, Retries=0, BatchSize=0, MinTasks=1, KeepPairing=False),
                                         invariants=["TwoSubmissions"], deadlock=False))
    chk.add_tlc("MapUnordered/switch-KeepPairing=FALSE", r, expect_violation="TwoSubmissions")
    r = run_tlc("MapUnordered", cfg=dict(spec="Spec", constants=dict(base, N=4, MinTasks=1, FixStartTimes=False),
                                         invariants=["NoCrash"], deadlock=False))
    chk.add_tlc("MapUnordered/switch-FixStartTimes=FALSE", r, expect_violation="NoCrash")


def gen_scripts(rng, count):
    out = []
    durs = [1.0, 1.0, 1.0, 2.0, 3.0, 6.0, 7.0, 30.0]
    for _ in range(count):
        n = rng.choice([3, 4, 6, 10, 11, 12, 13, 16, 24])
        retries = rng.choice([0, 1, 2, 2])
        ub = rng.random() < 0.75
        bs = rng.choice([None, None, 1, 1, 2, 3, 5, 10, n, n + 3])    # 1: the pending set is a single original (+ its backup)
        dur, fails, bdur, bfails = {}, {}, {}, {}
        pdoom = rng.choice([0.0, 0.0, 0.03, 0.15])
        for i in range(1, n + 1):
            dur[i] = rng.choice(durs)
            fails[i] = (retries + 1 + rng.randint(0, 1)) if rng.random() < pdoom else (0 if rng.random() < 0.6 else rng.randint(0, retries))
            bdur[i] = rng.choice([1.0, 1.0, 2.0, 5.0, 30.0])
            bfails[i] = (retries + 1) if rng.random() < max(pdoom, 0.1) else (0 if rng.random() < 0.6 else rng.randint(0, retries))
        # stragglers
        for i in rng.sample(range(1, n + 1), k=rng.choice([0, 1, 1, 2])):
            dur[i] = rng.choice([20.0, 40.0, 100.0])
        out.append(vloop.Script(n, dur, fails, bdur, bfails, order=rng.choice(["asc", "desc"]), retries=retries,
                                use_backups=ub, batch_size=bs))
    return out


def collide_variants(sc, res):
    """From a run in which a backup was launched, derive scripts where the twins finish in the same wake-up."""
    out = []
    tr = res["trace"]
    for e in tr:
        if e["ev"] == "Submit" and e["backup"]:
            i, tb = e["i"], e["t"]
            na = min(sc.fails[i] + 1, sc.retries + 1)
            tend = sc.dur[i] * na           # when the original completes
            if tend > tb:
                for bf in (0, sc.retries + 1):
                    nb = min(bf + 1, sc.retries + 1)
                    for order in ("asc", "desc"):
                        v = vloop.Script(sc.n, dict(sc.dur), dict(sc.fails), dict(sc.bdur), dict(sc.bfails), order=order,
                                         retries=sc.retries, use_backups=True, batch_size=sc.batch_size)
                        v.bdur[i] = (tend - tb) / nb
                        v.bfails[i] = bf
                        out.append(v)
                        v2 = vloop.Script(sc.n, dict(v.dur), dict(v.fails), dict(v.bdur), dict(v.bfails), order=order,
                                          retries=sc.retries, use_backups=True, batch_size=sc.batch_size)
                        v2.fails[i] = sc.retries + 1   # original doomed, same instant
                        v2.dur[i] = tend / (sc.retries + 1)
                        out.append(v2)
    return out


def to_monitor(sc, res):
    evs = []
    for e in res["trace"]:
        if e["ev"] == "Visit":
            continue        # mechanism-level event (MapUnorderedTrace), not part of the reference monitor's alphabet
        ev = dict(ev=e["ev"], f=e.get("f", 0), i=e.get("i", 0), b=bool(e.get("backup", False)), ok=bool(e.get("ok", False)))
        if e["ev"] == "Raise":
            ev["ok"] = e["kind"] == "injected"
        if e["ev"] == "Cancel":
            if not e["eff"]:
                continue
        evs.append(ev)
    return dict(n=sc.n, retries=sc.retries, events=evs)


def signature(res):
    """Abstract shape of a run: used to count distinct behaviours."""
    return tuple((e["ev"], e.get("backup", None), e.get("ok", None)) for e in res["trace"] if e["ev"] not in ("Attempt", "Visit"))


def run(chk):
    rng = random.Random(chk.seed)
    chk.rule = ("scripted environments (per-input durations, failing attempts, backup durations/failures, iteration order, "
                "retries, batching) for the real async_map_unordered in virtual time; a case is non-trivial if a failure, "
                "a backup or a refill occurred; distinct = distinct event-shape of the recorded trace")
    model_check(chk)
    nscripts = 250 if chk.tier == "quick" else 6000
    scripts = gen_scripts(rng, nscripts)
    runs = []
    for sc in scripts:
        res = vloop.run_script(sc)
        runs.append((sc, res))
        if len(runs) < nscripts * 3:
            for v in collide_variants(sc, res)[:8]:
                runs.append((v, vloop.run_script(v)))
    # python cross-check oracle
    pybad = {}
    for k, (sc, res) in enumerate(runs):
        b = vloop.oracle(sc, res)
        if b:
            pybad[k + 1] = b
    # TLC monitor verdicts, batched
    verdicts = {}
    B = 1500
    for off in range(0, len(runs), B):
        batch = [to_monitor(sc, res) for sc, res in runs[off:off + B]]
        v, r = validate_traces("MapMonitor", batch, timeout=1800)
        chk.add_tlc(f"MapMonitor/batch{off // B}", r)
        if len(v) != len(batch):
            raise MachineryError(f"MapMonitor returned {len(v)} verdicts for {len(batch)} traces\n{r.out[-1500:]}")
        for t, x in v.items():
            verdicts[off + t] = x
    twins_same_wake = 0
    for k, (sc, res) in enumerate(runs, 1):
        verdict, l = verdicts[k]
        tr = res["trace"]
        nontrivial = any(e["ev"] == "Submit" and e["backup"] for e in tr) or any(e["ev"] == "Done" and not e["ok"] for e in tr) \
            or sc.batch_size not in (None,) and sc.batch_size < sc.n
        chk.case(key=signature(res), nontrivial=nontrivial,
                 sample=dict(script=sc.to_json(), outcome=res["outcome"], events=len(tr), verdict=verdict) if k % 97 == 1 else None)
        chk.trace_validated()
        # same-wake twins?
        done_t = {e["f"]: e["t"] for e in tr if e["ev"] == "Done"}
        bk = {e["i"]: e["f"] for e in tr if e["ev"] == "Submit" and e["backup"]}
        og = {e["i"]: e["f"] for e in tr if e["ev"] == "Submit" and not e["backup"]}
        if any(i in og and og[i] in done_t and f in done_t and done_t[f] == done_t[og[i]] for i, f in bk.items()):
            twins_same_wake += 1
        if (verdict != "ok") != (k in pybad):
            raise MachineryError(f"monitor verdict {verdict} and python oracle {pybad.get(k)} disagree on trace {k}")
        if verdict != "ok":
            chk.violation(f"async_map_unordered trace rejected by MapMonitor clause {verdict} at event {l}: {pybad[k][:2]}",
                          replay=dict(script=sc.to_json(), trace=tr, clause=verdict, at=l))
    chk.extra["twins_finishing_in_same_wakeup"] = twins_same_wake
    chk.extra["outcomes"] = {o: sum(1 for _, r in runs if r["outcome"] == o) for o in set(r["outcome"] for _, r in runs)}
    # binding self-test: a corrupted trace must be rejected with the right clause
    good = next((to_monitor(sc, res) for k, (sc, res) in enumerate(runs, 1)
                 if res["outcome"] == "done" and len(res["trace"]) > 8 and verdicts[k][0] == "ok"), None)
    if good:
        import copy
        dup = copy.deepcopy(good)
        y = next(e for e in dup["events"] if e["ev"] == "Yield")
        dup["events"].insert(dup["events"].index(y), dict(y))
        drop = copy.deepcopy(good)
        drop["events"].remove(next(e for e in drop["events"] if e["ev"] == "Yield"))
        v, r = validate_traces("MapMonitor", [good, dup, drop])
        chk.add_tlc("MapMonitor/selftest", r)
        got = [v[i][0] for i in (1, 2, 3)]
        chk.extra["binding_selftest"] = dict(expected=["ok", "AtMostOnce", "DoneMeansAll"], got=got)
        if got != ["ok", "AtMostOnce", "DoneMeansAll"]:
            raise MachineryError(f"binding self-test failed: {got}")
    from checks import c08_e2e
    c08_e2e.run(chk)
    mechanism_drift(chk, rng)
    chk.assumptions += ["virtual-time loop and scripted futures stand in for the thread pool; the retry wrapper is the real "
                        "threads_create_futures_func wrapper (tenacity)",
                        "processes executor has no retry wrapper of its own; covered end-to-end only"]




# ------------------------------------------------------------------------------------------------ mechanism-level drift
def to_mechanism_trace(sc, res):
    """Events for spec/MapUnorderedTrace.tla (initial batch submissions are the spec's Init)."""
    evs = []
    first = sc.n if sc.batch_size is None else min(sc.batch_size, sc.n)
    nsub = 0
    pend_refill = 0
    inp_of = {}
    for e in res["trace"]:
        if e["ev"] == "Submit":
            nsub += 1
            inp_of[e["f"]] = e["i"]
            if nsub <= first:
                continue
            if e["backup"]:
                if pend_refill:
                    evs.append(dict(ev="refill", f=0, g=0, n=pend_refill, ok=False))
                    pend_refill = 0
                orig = max(f for f, i in inp_of.items() if i == e["i"] and f != e["f"])
                evs.append(dict(ev="launch", f=orig, g=e["f"], n=0, ok=False))
            else:
                pend_refill += 1
            continue
        if pend_refill:
            evs.append(dict(ev="refill", f=0, g=0, n=pend_refill, ok=False))
            pend_refill = 0
        if e["ev"] == "Attempt":
            evs.append(dict(ev="att", f=e["f"], g=0, n=0, ok=bool(e["ok"])))
        elif e["ev"] == "Visit":
            evs.append(dict(ev="visit", f=e["f"], g=0, n=0, ok=False))
        elif e["ev"] == "Raise":
            evs.append(dict(ev="raise", f=0, g=0, n=0, ok=False))
        elif e["ev"] == "Return":
            evs.append(dict(ev="return", f=0, g=0, n=0, ok=False))
    return evs


def mechanism_drift(chk, rng):
    """Does the code still follow MapUnordered.tla?  (DRIFT in the evidence, never a violation.)"""
    import os
    import re
    import shutil
    import tempfile
    import json as _json
    groups = [dict(N=12, Retries=2, UseBackups=True, BatchSize=0, MinTasks=10),
              dict(N=12, Retries=1, UseBackups=True, BatchSize=5, MinTasks=10),
              dict(N=5, Retries=2, UseBackups=False, BatchSize=2, MinTasks=10)]
    per = 25 if chk.tier == "quick" else 300
    summary = []
    for g in groups:
        traces, scripts = [], []
        for sc in gen_scripts(rng, per * 6):
            if len(traces) >= per:
                break
            sc.n, sc.retries, sc.use_backups = g["N"], g["Retries"], g["UseBackups"]
            sc.batch_size = g["BatchSize"] or None
            for d in (sc.dur, sc.fails, sc.bdur, sc.bfails):
                for i in range(1, sc.n + 1):
                    d.setdefault(i, 1.0 if d in (sc.dur, sc.bdur) else 0)
            sc.fails = {i: min(v, sc.retries + 1) for i, v in sc.fails.items()}
            res = vloop.run_script(sc)
            if res["outcome"] not in ("done", "raised"):
                continue
            traces.append(to_mechanism_trace(sc, res))
            scripts.append(sc)
        d = tempfile.mkdtemp(prefix="mut-")
        try:
            tf = os.path.join(d, "t.json")
            _json.dump(traces, open(tf, "w"))
            consts = dict(g, FixStartTimes=True, FixTwins=True, KeepPairing=True)
            r = run_tlc("MapUnorderedTrace", cfg=dict(init="TInit", next_="TNext", constants=consts,
                                                      invariants=INV + ["Explained"], deadlock=False),
                        workers=1, timeout=1800, env={"TRACE_FILE": tf})
            chk.add_tlc(f"MapUnorderedTrace/N{g['N']}R{g['Retries']}B{g['BatchSize']}", r)
            ok = {int(m.group(1)) for m in re.finditer(r'<<"VERDICT", (\d+), "ok", \d+>>', r.out)}
            unexplained = [k + 1 for k in range(len(traces)) if (k + 1) not in ok]
            summary.append(dict(config=g, traces=len(traces), explained=len(ok), unexplained=len(unexplained)))
            chk.traces += len(ok)
            for k in unexplained[:3]:
                chk.drift.append(dict(note="execution of async_map_unordered not explained by MapUnordered.tla (mechanism drift)",
                                      config=g, script=scripts[k - 1].to_json()))
        finally:
            shutil.rmtree(d, ignore_errors=True)
    chk.extra["mechanism_trace_validation"] = summary


if __name__ == "__main__":
    sys.exit(main(run, "C08"))
