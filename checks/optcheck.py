"""Shared by C02 and C04: export real pre/post DAGs, run under optimizer settings / budgets, build OptTrace documents."""
import functools
import os
import random
import warnings

import numpy as np

from harness import obs, programs, traced
from harness.core import MachineryError
from harness.execs import AdversarialExecutor
from harness.tlc import validate_traces_parallel
from checks import seqexec


def export_dag(fp):
    dag = fp.dag
    nodes = dict(dag.nodes(data=True))
    ops, arrays, inputs = [], [], []
    for n, d in nodes.items():
        if d.get("type") == "array":
            arrays.append(n)
    prim = {n for n, d in nodes.items() if "primitive_op" in d and n != "create-arrays"}
    for n in prim:
        po = nodes[n]["primitive_op"]
        outs = sorted(s for s in dag.successors(n) if nodes[s].get("type") == "array")
        ops.append(dict(name=n, srcs=list(po.source_array_names), proj=int(po.projected_mem), outs=outs,
                        nt=int(po.num_tasks)))
    produced = {a for o in ops for a in o["outs"]}
    inputs = [a for a in arrays if a not in produced]
    return dict(ops=sorted(ops, key=lambda o: o["name"]), arrays=sorted(arrays), inputs=sorted(inputs))


def optimizers(rng, pre):
    """(label, optimize_graph, optimize_function, forced) settings to try for a program whose unoptimized DAG is `pre`."""
    from cubed.core.optimization import (fuse_all_optimize_dag, fuse_only_optimize_dag, multiple_inputs_optimize_dag,
                                         simple_optimize_dag)
    opnames = [o["name"] for o in pre["ops"]]
    out = [("default", True, None, False)]
    msa = rng.choice([1, 2, 4, None])
    mib = rng.choice([None, 1, 4, 10])
    out.append((f"multi(msa={msa},mib={mib})", True,
                functools.partial(multiple_inputs_optimize_dag, max_total_source_arrays=msa if msa else 10 ** 6,
                                  max_total_num_input_blocks=mib), False))
    out.append(("simple", True, simple_optimize_dag, False))
    out.append(("fuse_all", True, fuse_all_optimize_dag, True))
    if opnames:
        only = rng.sample(opnames, k=max(1, len(opnames) // 2))
        out.append((f"fuse_only({len(only)})", True, functools.partial(fuse_only_optimize_dag, only_fuse=only), True))
        af = rng.sample(opnames, k=max(1, len(opnames) // 2))
        nf = [o for o in opnames if o not in af and rng.random() < 0.5]
        out.append((f"always/never({len(af)},{len(nf)})", True,
                    functools.partial(multiple_inputs_optimize_dag, always_fuse=af, never_fuse=nf), True))
    return out


def materialized(arr, target_info=None):
    """Every chunk of the requested array's backing Zarr array is present in storage (plain directory listing).
    For a user target written through a region only the region's chunks are expected."""
    z = arr._zarray
    path = None
    from harness.execs import target_path
    path = target_path(z)
    if path is None:
        return True   # virtual / in-memory
    keys = seqexec.data_keys(path)
    ti = (target_info or {}).get(os.path.normpath(path))
    if ti is not None:
        return len(keys) >= ti["nkeys"]
    try:
        shape, chunks = z.shape, z.chunks
        import numpy as _np
        nfields = len(_np.dtype(z.dtype).names or ()) or 1
        exp = int(np.prod([(-(-n // c) if n else 0) for n, c in zip(shape, chunks)])) * nfields if shape else nfields
    except Exception:
        return True
    return len(keys) == exp


def admission_events(sess, arrays, entry, **kw):
    """Run an execution entry point and summarise what happened as OptTrace admission events."""
    import cubed
    ex = AdversarialExecutor(order="fwd")
    sess.events(clear=True)
    before = _listing(sess.dir)
    outcome, exc = "ok", None
    try:
        if entry == "compute_method":
            arrays[0].compute(executor=ex, **kw)
        elif entry == "compute":
            cubed.compute(*arrays, executor=ex, **kw)
        elif entry == "store":
            tg = [os.path.join(sess.work, f"tgt-{i}.zarr") for i in range(len(arrays))]
            cubed.store(list(arrays), tg, executor=ex, **kw)
        else:
            cubed.to_zarr(arrays[0], os.path.join(sess.work, "tz.zarr"), executor=ex, **kw)
    except ValueError as e:
        outcome, exc = "refuse", e
    except Exception as e:
        outcome, exc = "error", e
    evs = sess.events(clear=True)
    out = []
    for e in evs:
        if e["k"] == "exec_enter":
            out.append("enter")
        elif e["k"] in ("set", "del"):
            out.append("write")
    # collapse repeated writes
    comp = []
    for x in out:
        if not (comp and comp[-1] == "write" and x == "write"):
            comp.append(x)
    after = _listing(sess.dir)
    new_files = sorted(after - before)
    if outcome == "refuse" and new_files and "write" not in comp:
        comp.append("write")     # something appeared on disk without going through the observed store
    if outcome == "refuse" and "enter" in comp and not any(w in str(exc).lower() for w in ("allowed_mem", "memory", "projected")):
        # a ValueError AFTER the executor was entered that does not speak of memory is not an admission decision (e.g. zarr's
        # ArrayNotFoundError, a ValueError subclass, when a target was never written: findings F8/F9, judged by C10/C11/C17);
        # a memory refusal that comes late stays a "refuse" and is rejected by C04:RefusedAfterStarting
        outcome = "error"
    comp.append(outcome)
    return comp, exc, ex, new_files


def _listing(root):
    out = set()
    for r, dirs, files in os.walk(root):
        if os.path.basename(r) == "trace" or "/trace" in r:
            continue
        for f in files:
            out.add(os.path.join(r, f))
        for d in dirs:
            out.add(os.path.join(r, d) + "/")
    return {p for p in out if "/trace" not in p and not p.endswith("faults.json")}


def validate(chk, focus, docs):
    v, results = validate_traces_parallel("OptTrace", docs, constants=dict(Focus=focus), batch=25, jobs=6)
    for n, r in enumerate(results):
        chk.add_tlc(f"OptTrace[{focus}]/batch{n}", r)
    if len(v) != len(docs):
        raise MachineryError(f"OptTrace returned {len(v)} verdicts for {len(docs)} docs")
    return v
