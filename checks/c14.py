"""C14 — rechunk plans are well-formed, aligned and memory-bounded for every geometry.
P3/P4: Rechunk.tla says what a valid plan is; for enumerated and random geometries x budgets the REAL planners
    (multistage_rechunking_plan, multistage_regular_rechunking_plan) and cubed's copy-operation plan (_rechunk_plan / rechunk on
    lazily built arrays, real target grids read from the built arrays) are called under a timeout and every returned plan
    is judged by TLC.  A rejection must be ValueError / NotImplementedError.  A sub-sample is computed: elements preserved,
    .chunks exactly as requested."""
import itertools
import json
import os
import random
import re
import signal
import sys
import tempfile
import warnings

import numpy as np

sys.path.insert(0, os.path.dirname(os.path.dirname(os.path.abspath(__file__))))
from harness.core import main, MachineryError  # noqa
from harness.tlc import run_tlc  # noqa


class Timeout(Exception):
    pass


def _alarm(signum, frame):
    raise Timeout()


def with_timeout(fn, seconds=10):
    old = signal.signal(signal.SIGALRM, _alarm)
    signal.alarm(seconds)
    try:
        return fn()
    finally:
        signal.alarm(0)
        signal.signal(signal.SIGALRM, old)


def tlc_verdicts(chk, cases, label):
    d = tempfile.mkdtemp(prefix="rc-")
    try:
        cf = os.path.join(d, "cases.json")
        json.dump(cases, open(cf, "w"))
        r = run_tlc("Rechunk", cfg=dict(spec="Spec", deadlock=False), workers=1, timeout=3000, env={"CASE_FILE": cf})
        chk.add_tlc("Rechunk/" + label, r)
        out = {}
        for m in re.finditer(r'<<"VERDICT", (\d+), "([^"]*)", 0>>', r.out):
            out[int(m.group(1))] = m.group(2)
        if len(out) != len(cases):
            raise MachineryError(f"Rechunk.tla judged {len(out)} of {len(cases)} cases\n{r.out[-2500:]}")
        return out
    finally:
        import shutil
        shutil.rmtree(d, ignore_errors=True)


def gen_geometry(rng, big=False):
    nd = rng.choice([1, 2, 2, 3])
    exts = [2, 3, 4, 5, 6, 7, 8, 9, 10, 12, 13, 16, 17, 20, 24] + ([30, 36, 45, 50, 52, 60, 64, 97, 100, 120] if big else [])
    shape = [rng.choice(exts) for _ in range(nd)]
    while int(np.prod(shape)) > (200000 if big else 4000):
        shape[rng.randrange(nd)] = rng.choice(exts[:8])
    src = [rng.randint(1, s) for s in shape]
    tgt = [rng.randint(1, s) for s in shape]
    if rng.random() < 0.5:       # transpose-like
        for d in range(nd):
            if d % 2 == 0:
                src[d], tgt[d] = max(1, shape[d] - rng.randint(0, shape[d] // 3)), rng.choice([1, 2, 3])
            else:
                src[d], tgt[d] = rng.choice([1, 2, 3]), max(1, shape[d] - rng.randint(0, shape[d] // 3))
        src = [min(a, s) for a, s in zip(src, shape)]
        tgt = [min(a, s) for a, s in zip(tgt, shape)]
    itemsize = rng.choice([1, 4, 8])
    big_chunk = max(int(np.prod(src)), int(np.prod(tgt))) * itemsize
    maxmem = int(big_chunk * rng.choice([1, 1.2, 2, 4, 10]))
    minmem = rng.choice([itemsize, max(itemsize, maxmem // 20), maxmem // 2, maxmem])
    return dict(shape=shape, src=src, tgt=tgt, itemsize=itemsize, maxmem=maxmem, minmem=minmem)


def planner_cases(rng, n, big=False):
    """Call the two planners directly."""
    from cubed.core.rechunk import multistage_regular_rechunking_plan
    from cubed.vendor.rechunker.algorithm import multistage_rechunking_plan
    cases, bad = [], []
    for _ in range(n):
        g = gen_geometry(rng, big)
        for regular, fn in ((False, multistage_rechunking_plan), (True, multistage_regular_rechunking_plan)):
            try:
                with warnings.catch_warnings():
                    warnings.simplefilter("ignore")
                    stages = with_timeout(lambda: fn(shape=tuple(g["shape"]), source_chunks=tuple(g["src"]), target_chunks=tuple(g["tgt"]),
                                                     itemsize=g["itemsize"], min_mem=g["minmem"], max_mem=g["maxmem"]))
            except (ValueError, NotImplementedError):
                continue
            except Timeout:
                bad.append((g, regular, "planner did not terminate within 10 s"))
                continue
            except Exception as e:
                bad.append((g, regular, f"planner raised {type(e).__name__}: {str(e)[:100]}"))
                continue
            cases.append(dict(kind="stages", shape=g["shape"], src=g["src"], tgt=g["tgt"], itemsize=g["itemsize"], maxmem=g["maxmem"],
                              regular=regular, minmem=g["minmem"],
                              stages=[dict(read=list(map(int, s[0])), int=list(map(int, s[1])), write=list(map(int, s[2]))) for s in stages],
                              copies=[]))
    return cases, bad


def grid_bounds(arr_chunks):
    return [[0] + [int(x) for x in np.cumsum(c)] for c in arr_chunks]


def copy_cases(rng, n, big=False):
    """cubed's own copy-operation plans on lazily built arrays: the grid each copy op writes is read from the built array."""
    import cubed
    import cubed.array_api as xp
    from cubed.core.ops import _rechunk, _rechunk_plan
    from cubed.primitive.memory import get_buffer_copies
    cases, bad, built = [], [], []
    for _ in range(n):
        g = gen_geometry(rng, big)
        reserved = rng.choice([0, 0, 1000, 100000])
        dtype = {1: np.int8, 4: np.float32, 8: np.float64}[g["itemsize"]]
        # allowed_mem such that rechunker_max_mem = maxmem
        allowed = g["maxmem"] * 5 + reserved + rng.choice([0, 1, 4])
        spec = cubed.Spec(work_dir=tempfile.gettempdir(), allowed_mem=allowed, reserved_mem=reserved)
        regular = rng.random() < 0.5
        try:
            x = xp.empty(tuple(g["shape"]), dtype=dtype, chunks=tuple(g["src"]), spec=spec)
            with warnings.catch_warnings():
                warnings.simplefilter("ignore")
                plan = with_timeout(lambda: list(_rechunk_plan(x, tuple(g["tgt"]), allow_irregular=not regular)))
                out = x
                copies = []
                for copy_chunks, target_chunks in plan:
                    out = _rechunk(out, copy_chunks, target_chunks, allow_irregular=not regular)
                    copies.append(dict(copy=[int(c) for c in copy_chunks], grid=grid_bounds(out.chunks), regular=True,
                                       tchunks=[int(c[0]) for c in out.chunks]))
        except (ValueError, NotImplementedError):
            continue
        except Timeout:
            bad.append((g, regular, "rechunk planning did not terminate within 10 s"))
            continue
        except Exception as e:
            bad.append((g, regular, f"rechunk planning raised {type(e).__name__}: {str(e)[:100]}"))
            continue
        if not copies:
            continue
        total_copies = 1 + get_buffer_copies(spec).read + 1 + 1 + get_buffer_copies(spec).write
        budget = (allowed - reserved) // total_copies
        for cp in copies[:-1]:
            cp["regular"] = False      # only the final op must have exactly the requested chunks
        cases.append(dict(kind="copies", shape=g["shape"], src=g["src"], tgt=[min(t, s) for t, s in zip(g["tgt"], g["shape"])],
                          itemsize=g["itemsize"], maxmem=int(budget), regular=regular, minmem=0, stages=[], copies=copies,
                          allowed=allowed, reserved=reserved))
    return cases, bad


def computed_sample(rng, n):
    """x.rechunk(...) computed: elements preserved, chunks exactly as requested."""
    import cubed
    import cubed.array_api as xp
    bad = []
    done = 0
    for _ in range(n):
        g = gen_geometry(rng)
        allowed = g["maxmem"] * 5 + 8
        with tempfile.TemporaryDirectory() as wd:
            spec = cubed.Spec(work_dir=wd, allowed_mem=allowed, reserved_mem=0)
            a = np.arange(int(np.prod(g["shape"])), dtype=np.float64).reshape(g["shape"])
            try:
                with warnings.catch_warnings():
                    warnings.simplefilter("ignore")
                    x = xp.asarray(a, chunks=tuple(g["src"]), spec=spec)
                    y = cubed.rechunk(x, tuple(g["tgt"]), allow_irregular=rng.random() < 0.5)
                    r = y.compute()
            except (ValueError, NotImplementedError):
                continue
            except Exception as e:
                bad.append((g, f"rechunk failed: {type(e).__name__}: {str(e)[:120]}"))
                continue
            done += 1
            want = tuple(tuple([t] * (s // t) + ([s % t] if s % t else [])) for s, t in zip(g["shape"], g["tgt"]))
            if not np.array_equal(r, a):
                bad.append((g, "elements not preserved"))
            elif y.chunks != want:
                bad.append((g, f"chunks {y.chunks} != requested {want}"))
    return done, bad


def run(chk):
    rng = random.Random(chk.seed + 1401)
    chk.rule = ("random geometries (1-3 dims, extents up to 24 quick / 120 thorough incl. primes, transpose-like chunkings) x itemsize "
                "x max_mem from one chunk up x min_mem x reserved_mem x regular/irregular; every plan returned by the two planners "
                "and every copy-operation plan of cubed judged by Rechunk.tla; non-trivial = the plan has >= 2 stages or copy ops; "
                "distinct = distinct (geometry, budget, planner)")
    n1 = 2000 if chk.tier == "quick" else 40000
    n2 = 6000 if chk.tier == "quick" else 60000
    total_bad = []
    for label, gen, n in (("planners", planner_cases, n1), ("copy-ops", copy_cases, n2)):
        B = 4000
        left = n
        part = 0
        while left > 0:
            cases, bad = gen(rng, min(B, left), big=(chk.tier == "thorough" or part % 3 == 2))
            left -= B
            part += 1
            for g, regular, what in bad:
                chk.case(key=("bad", json.dumps(g), regular))
                chk.violation(f"{label}: {what} for {g} regular={regular}", replay=dict(geometry=g, regular=regular))
            for i, c in enumerate(cases):
                c["id"] = i
            if not cases:
                continue
            v = tlc_verdicts(chk, cases, f"{label}-{part}")
            for c in cases:
                k = len(c["stages"]) if c["kind"] == "stages" else len(c["copies"])
                chk.case(key=(label, json.dumps([c["shape"], c["src"], c["tgt"], c["itemsize"], c["maxmem"], c["minmem"], c["regular"]])),
                         nontrivial=k >= 2,
                         sample=dict(kind=c["kind"], shape=c["shape"], src=c["src"], tgt=c["tgt"], itemsize=c["itemsize"], maxmem=c["maxmem"],
                                     regular=c["regular"], stages=c["stages"][:3], copies=[cp["copy"] for cp in c["copies"]][:3],
                                     verdict=v[c["id"]]) if c["id"] % 1300 == 5 else None)
                chk.trace_validated()
                if v[c["id"]] != "ok":
                    chk.violation(f"{label}: plan for shape={c['shape']} src={c['src']} tgt={c['tgt']} itemsize={c['itemsize']} "
                                  f"budget={c['maxmem']} regular={c['regular']} reserved={c.get('reserved')} rejected: {v[c['id']]}; "
                                  f"stages={c['stages']} copies={[cp['copy'] for cp in c['copies']]}", replay=c)
    done, bad = computed_sample(rng, 30 if chk.tier == "quick" else 600)
    chk.extra["computed_rechunks"] = done
    for g, what in bad:
        chk.violation(f"computed rechunk {g}: {what}", replay=g)


if __name__ == "__main__":
    sys.exit(main(run, "C14"))
