"""C11 — store/to_zarr fill every target completely, and only inside the requested region.
P1: PlanGraph.tla (in-place re-targeting by store; taints retarget-shared / retarget-twice) + DagExec.tla FinalGood for
    multi-writer layouts (shared with C05).
P2/P4: calls enumerated over sources {in-memory, computed, rechunked, fused chains} x targets {new path, path + group, existing
    Zarr array with equal / coarser / finer / coprime chunks, sharded} x regions {none, full, aligned offsets, ragged edge,
    misaligned, wrong shape} x eager / lazy x lists of pairs (incl. one source to several targets) x executors {single-threaded,
    threads with write latency}; targets are pre-filled with sentinels and read back with plain zarr; the facts are judged by
    StoreTrace.tla."""
import os
import random
import sys
import warnings

import numpy as np

sys.path.insert(0, os.path.dirname(os.path.dirname(os.path.abspath(__file__))))
from harness.core import main, MachineryError  # noqa
from harness import traced  # noqa
from harness.tlc import validate_traces_parallel  # noqa
from checks import plangraph  # noqa

SENT = -7


def make_source(kind, shape, chunks, spec, seed):
    import cubed
    import cubed.array_api as xp
    a = (np.arange(int(np.prod(shape))).reshape(shape) * 3 + seed) % 1000 + 1
    x = xp.asarray(a, chunks=chunks, spec=spec)
    if kind == "plain":
        return x, a
    if kind == "chain":
        return xp.add(xp.negative(x), 5), -a + 5
    if kind == "rechunked":
        return xp.add(x, 1).rechunk(tuple(max(1, c // 2 + 1) for c in chunks)), a + 1
    if kind == "computed":
        y = xp.multiply(x, 2)
        y.compute()
        return y, a * 2
    if kind == "reduced":
        return xp.sum(xp.stack([x, x]), axis=0), a * 2
    raise ValueError(kind)


def one_case(rng, k):
    """Returns (doc, meta)."""
    import cubed
    import zarr
    from cubed.runtime.create import create_executor
    warnings.simplefilter("ignore")
    exname = rng.choice(["single-threaded", "single-threaded", "threads"])
    with traced.Session(wlat=0.01 if exname == "threads" else None, wlat_random=True) as s:
        spec = s.spec()
        r, c = rng.choice([(6, 8), (8, 6), (12, 4), (9, 5)])
        sch = (rng.choice([1, 2, 3, r]), rng.choice([1, 2, 4, c]))
        narrow = rng.random() < 0.15      # a source narrower than one target chunk, stored into a region
        if narrow:
            r, c = 6, 1
            sch = (rng.choice([2, 3, 6]), 1)
        skind = rng.choice(["plain", "chain", "rechunked", "computed", "reduced"])
        npairs = rng.choice([1, 1, 1, 2, 2, 3])
        mode = rng.choice(["eager", "lazy"])
        api = rng.choice(["store", "to_zarr"]) if npairs == 1 else "store"
        sources, values, targets, regions, expect, info = [], [], [], [], [], []
        shouldreject = False
        same_source = npairs >= 2 and rng.random() < 0.35
        for p in range(npairs):
            if p == 0 or not same_source:
                x, a = make_source(skind, (r, c), sch, spec, seed=p + 1)
            sources.append(x)
            values.append(a)
            tk = rng.choice(["path", "path", "group", "existing-equal", "existing-coarser", "existing-finer", "existing-coprime", "sharded",
                             "existing-other-shape",
                             "region", "region", "region-ragged", "region-misaligned", "region-wrongshape", "region-stepped"])
            if narrow:
                tk = "region-narrow"
            if api == "to_zarr" and tk == "group":
                pass
            path = os.path.join(s.work, f"user-{k}-{p}.zarr")
            region = None
            if tk in ("path", "group"):
                tgt = path
                full = None
            elif tk == "existing-other-shape":
                tshape = (r + rng.choice([1, 3, sch[0]]), c) if rng.random() < 0.5 else (r, max(1, c - 1))
                tgt = zarr.create_array(path, shape=tshape, chunks=x.chunksize, dtype=a.dtype, fill_value=0)
                tgt[...] = SENT
                full = np.full(tshape, SENT, dtype=a.dtype)
                shouldreject = True
            elif tk.startswith("existing") or tk == "sharded":
                xch = x.chunksize
                tch = {"existing-equal": xch, "existing-coarser": tuple(min(n, ch * 2) for n, ch in zip((r, c), xch)),
                       "existing-finer": tuple(max(1, ch // 2) for ch in xch), "existing-coprime": (min(r, 5), min(c, 3)),
                       "sharded": (2, 2)}[tk]
                extra = dict(shards=(4, 4)) if tk == "sharded" and r % 4 == 0 and c % 4 == 0 else {}
                tgt = zarr.create_array(path, shape=(r, c), chunks=tch, dtype=a.dtype, fill_value=0, **extra)
                tgt[...] = SENT
                full = np.full((r, c), SENT, dtype=a.dtype)
            else:
                tch = (rng.choice([1, 2, 3]), rng.choice([2, 4]))
                r0, c0 = tch[0] * rng.randint(0, 2), tch[1] * rng.randint(0, 2)
                if tk == "region-narrow":
                    tch = (2, 4)
                    r0 = 2 * rng.randint(0, 1)
                    c0 = rng.choice([0, 4, 1, 2, 3, 5])
                    edge = rng.random() < 0.5
                    tshape = (r0 + r + 2, c0 + c if edge else c0 + c + 4)
                    region = (slice(r0, r0 + r), slice(c0, c0 + c))
                    shouldreject = (c0 % 4 != 0) or not edge
                elif tk == "region":
                    tshape = (r0 + r + tch[0] * rng.randint(0, 2) * (r % tch[0] == 0), c0 + c + tch[1] * rng.randint(0, 1) * (c % tch[1] == 0))
                    region = (slice(r0, r0 + r), slice(c0, c0 + c))
                elif tk == "region-ragged":
                    tshape = (r0 + r, c0 + c)
                    region = (slice(r0, r0 + r), slice(c0, c0 + c))
                elif tk == "region-stepped":
                    # every second row: not writable chunk-wise; it may be declined (cleanly) or handled, never half-done
                    tshape = (r0 + 2 * r, c0 + c)
                    region = (slice(r0, r0 + 2 * r, 2), slice(c0, c0 + c))
                elif tk == "region-misaligned":
                    tch = (max(2, tch[0]), tch[1])
                    r0 = tch[0] * rng.randint(0, 2) + 1
                    tshape = (r0 + r + tch[0], c0 + c)
                    region = (slice(r0, r0 + r), slice(c0, c0 + c))
                    shouldreject = True
                else:
                    tshape = (r0 + r + 2, c0 + c)
                    region = (slice(r0, r0 + r + 1), slice(c0, c0 + c))
                    shouldreject = True
                if tk in ("region", "region-ragged"):
                    # a region whose end is not chunk-aligned must end at the target's edge, otherwise it is unsafe
                    if any(sl.stop % ch != 0 and sl.stop != n for sl, ch, n in zip(region, tch, tshape)):
                        shouldreject = True
                if rng.random() < 0.35:
                    # the same region spelled with negative / open-ended bounds (NumPy and Zarr semantics)
                    region = tuple(slice(sl.start - n if (sl.start > 0 and rng.random() < 0.7) else (None if sl.start == 0 and rng.random() < 0.5 else sl.start),
                                         None if (sl.stop == n and rng.random() < 0.6) else (sl.stop - n if sl.stop < n and rng.random() < 0.7 else sl.stop),
                                         sl.step) for sl, n in zip(region, tshape))
                tgt = zarr.create_array(path, shape=tshape, chunks=tch, dtype=a.dtype, fill_value=0)
                tgt[...] = SENT
                full = np.full(tshape, SENT, dtype=a.dtype)
            targets.append(tgt)
            regions.append(region)
            info.append(dict(kind=tk, path=path, full=full, region=region, group=("g/h" if tk == "group" else None)))
        # ---- the call
        s.events(clear=True)
        before = _files(s.work)
        exc = None
        try:
            ex = create_executor(exname)
            kw = dict(executor=ex) if mode == "eager" else {}
            if api == "to_zarr":
                out = cubed.to_zarr(sources[0], targets[0], path=info[0]["group"], region=regions[0], compute=(mode == "eager"), **kw)
                outs = [out]
            else:
                if any(i["group"] for i in info):
                    for i in info:
                        i["group"] = None
                regs = regions if any(rg is not None for rg in regions) else None
                if regs is not None and npairs == 1:
                    regs = regs[0]
                outs = cubed.store(sources, targets, regions=regs, compute=(mode == "eager"), **kw)
            if mode == "lazy":
                cubed.compute(*[o for o in outs], executor=create_executor(exname), _return_in_memory_array=False)
        except Exception as e:
            exc = e
        evs = s.events(clear=True)
        after = _files(s.work)
        facts = []
        if exc is None:
            for a, i in zip(values, info):
                try:
                    z = zarr.open_array(i["path"], path=i["group"], mode="r") if i["group"] else zarr.open_array(i["path"], mode="r")
                    cur = z[...]
                    if i["region"] is None:
                        inside = cur.shape == a.shape and np.array_equal(cur, a)
                        outside = True
                    else:
                        inside = np.array_equal(cur[i["region"]], a)
                        m = np.ones(cur.shape, dtype=bool)
                        m[i["region"]] = False
                        outside = bool(np.all(cur[m] == SENT))
                    facts.append(dict(exists=True, inside=bool(inside), outside=bool(outside)))
                except Exception:
                    facts.append(dict(exists=False, inside=False, outside=True))
        effects = 0
        if exc is not None:
            # the harness itself pre-filled existing targets before the observed window; anything after that is cubed's doing
            effects = sum(1 for e in evs if e["k"] in ("set", "del")) + len([f for f in after - before])
        doc = dict(rejected=exc is not None, exc=type(exc).__name__ if exc is not None else "", effects=effects,
                   shouldreject=bool(shouldreject), targets=facts)
        taint = []
        names = [x.name for x in sources]
        if len(set(names)) < len(names):
            # one uncomputed source stored to several targets in one call: the first pair re-targets the shared operation object
            # in place, the other pairs (or the rechunks derived for them) then see the re-targeted source (PlanGraph taints)
            taint += ["retarget-twice", "retarget-shared"]
        meta = dict(api=api, mode=mode, executor=exname, source=skind, chunks=sch, targets=[(i["kind"], str(i["region"])) for i in info],
                    same_source=same_source, exception=repr(exc)[:200] if exc is not None else None, taint=taint)
        return doc, meta


def _files(root):
    out = set()
    for r_, d_, f_ in os.walk(root):
        for f in f_:
            out.add(os.path.join(r_, f))
    return out


def run(chk):
    rng = random.Random(chk.seed + 1101)
    chk.rule = ("random store/to_zarr calls over source kinds x target kinds x regions x eager/lazy x 1-3 pairs (35% of multi-pair calls "
                "store ONE source to several targets) x executors; non-trivial = an existing / region / multi-pair target; distinct = "
                "distinct call description")
    plangraph.p1(chk)
    n = 120 if chk.tier == "quick" else 3000
    docs, metas = [], []
    for k in range(n):
        try:
            doc, meta = one_case(rng, k)
        except MachineryError:
            raise
        docs.append(doc)
        metas.append(meta)
    v, results = validate_traces_parallel("StoreTrace", docs, batch=200, jobs=4)
    for i, r in enumerate(results):
        chk.add_tlc(f"StoreTrace/batch{i}", r)
    if len(v) != len(docs):
        raise MachineryError("StoreTrace returned too few verdicts")
    for i, (doc, meta) in enumerate(zip(docs, metas), 1):
        verdict, _ = v[i]
        nontriv = any(t[0] != "path" for t in meta["targets"]) or len(meta["targets"]) > 1
        chk.case(key=str(meta), nontrivial=nontriv, sample=dict(call=meta, facts=doc, verdict=verdict) if i % 30 == 1 else None)
        chk.trace_validated()
        if verdict != "ok":
            chk.fail_or_known(f"{meta['api']}({meta['mode']}, {meta['executor']}) source={meta['source']} chunks={meta['chunks']} "
                              f"targets={meta['targets']} one_source_many_targets={meta['same_source']}: {verdict} "
                              f"(exception={meta['exception']}, facts={doc['targets']})", replay=dict(meta=meta, doc=doc),
                              taint=meta["taint"], kind="store-call")


if __name__ == "__main__":
    sys.exit(main(run, "C11"))
