"""C18 — resource specs cannot be mixed silently and memory settings mean what they say.
(a) Reference rule OneSpecPerPlan: for every multi-array entry point (catalogued + operators + compute / store / visualize /
    plan) and every pair of Specs that differ in exactly one field, the call must raise ValueError -- except functions whose
    outputs each derive from one argument, which may accept provided no returned array's plan contains nodes of both inputs.
    For accepted single-spec plans the budget used for admission and by every operation is the Spec's.
(b) spec/MemSize.tla gives the exact meaning of a size literal on digit sequences (TLC's integers are 32-bit); TLC evaluates
    thousands of generated literals (grammar: ints, fractions, exponents, underscores, units, spaces, malformed variants) and
    convert_to_bytes / Spec(allowed_mem=...) must return exactly that number of bytes, or reject where the reference rejects."""
import json
import os
import random
import sys
import tempfile
import warnings

import numpy as np

sys.path.insert(0, os.path.dirname(os.path.dirname(os.path.abspath(__file__))))
from harness.core import main, MachineryError  # noqa
from harness.tlc import run_tlc  # noqa


def gen_literal(rng):
    kind = rng.random()
    ip = "".join(rng.choice("0123456789") for _ in range(rng.choice([0, 1, 1, 2, 3, 6, 12, 17])))
    fp = "".join(rng.choice("0123456789") for _ in range(rng.choice([0, 0, 1, 2, 3, 4, 7])))
    s = ip
    if rng.random() < 0.1 and len(ip) > 3:
        s = ip[:-3] + "_" + ip[-3:]
    if fp or rng.random() < 0.1:
        s += "." + fp
    if rng.random() < 0.2:
        s += rng.choice("eE") + rng.choice(["", "+", "-"]) + str(rng.choice([0, 1, 2, 3, 6, 9]))
    unit = rng.choice(["", "", "B", "kB", "MB", "GB", "TB", "PB"])
    if rng.random() < 0.15:
        s = rng.choice(["+", "-", " ", ""]) + s
    sep = rng.choice(["", "", " "])
    lit = s + sep + unit
    if kind < 0.15:       # malformed variants
        lit = rng.choice([lit.replace("B", "b"), lit.replace("k", "K"), lit + "i", s + "KiB", s + "EB", s + "bytes", unit, "",
                          s + "k", "0x10", s + "MB ", "1..5kB", "1e", "e5", "_1", "1__0", "1_", s.replace(".", ",") + unit,
                          "1 000", "nan", "inf", "infkB"])
    return lit


def tlc_bytes(chk, lits, label):
    d = tempfile.mkdtemp(prefix="ms-")
    try:
        cases = []
        for i, lit in enumerate(lits):
            codes = [ord(c) if ord(c) < 256 else 255 for c in lit]
            cases.append(dict(id=i, chars=codes))
        cf = os.path.join(d, "cases.json")
        json.dump(cases, open(cf, "w"))
        r = run_tlc("MemSize", cfg=dict(spec="Spec", deadlock=False), workers=1, timeout=3000, env={"CASE_FILE": cf})
        chk.add_tlc("MemSize/" + label, r)
        out = {}
        for line in r.out.splitlines():
            s = line.strip()
            if s.startswith('"RES') and s.endswith('"'):
                o = json.loads(s[4:-1].replace('\\"', '"').replace("\\\\", "\\"))
                out[o["id"]] = (o["ok"], "".join(str(x) for x in o["digits"]))
        if len(out) != len(cases):
            raise MachineryError(f"MemSize.tla evaluated {len(out)} of {len(cases)} literals\n{r.out[-2500:]}")
        return out
    finally:
        import shutil
        shutil.rmtree(d, ignore_errors=True)


def spec_pairs(work):
    """Pairs of Specs differing in exactly one field."""
    import cubed
    from cubed.runtime.create import create_executor
    base = dict(work_dir=work, allowed_mem=500_000_000, reserved_mem=0)
    A = cubed.Spec(**base)
    return A, {
        "work_dir": cubed.Spec(**dict(base, work_dir=work + "-other")),
        "intermediate_store": cubed.Spec(**base, intermediate_store=work + "-istore"),
        "allowed_mem": cubed.Spec(**dict(base, allowed_mem=400_000_000)),
        "reserved_mem": cubed.Spec(**dict(base, reserved_mem=1000)),
        "executor": cubed.Spec(**base, executor=create_executor("threads")),
        "storage_options": cubed.Spec(**base, storage_options={"x": 1}),
        "zarr_compressor": cubed.Spec(**base, zarr_compressor=None),
        # both sides carry an executor: same class with different options, different classes, options given by name
        "executor_options": (cubed.Spec(**base, executor=create_executor("threads", dict(max_workers=1))),
                             cubed.Spec(**base, executor=create_executor("threads", dict(max_workers=4)))),
        "executor_class": (cubed.Spec(**base, executor=create_executor("threads")), cubed.Spec(**base, executor=create_executor("processes"))),
        "executor_name_options": (cubed.Spec(**base, executor_name="threads", executor_options=dict(max_workers=1)),
                                  cubed.Spec(**base, executor_name="threads", executor_options=dict(max_workers=2))),
    }


def entry_points():
    """name -> function(x (spec A), y (spec B)) building something that depends on both arrays."""
    import cubed
    import cubed.array_api as xp
    import cubed.array_api.linalg as la
    E = {}
    for n in ["add", "subtract", "multiply", "divide", "maximum", "minimum", "less", "equal", "pow", "atan2", "hypot", "copysign",
              "logaddexp", "remainder", "floor_divide", "greater", "not_equal", "nextafter"]:
        if hasattr(xp, n):
            E[n] = (lambda f: lambda x, y: f(x, y))(getattr(xp, n))
    E["operator+"] = lambda x, y: x + y
    E["operator*"] = lambda x, y: x * y
    E["operator<"] = lambda x, y: x < y
    E["operator@"] = lambda x, y: x @ y
    E["where"] = lambda x, y: xp.where(x > 0, x, y)
    E["where-cond"] = lambda x, y: xp.where(y > 0, x, x)
    E["matmul"] = lambda x, y: xp.matmul(x, y)
    E["tensordot"] = lambda x, y: xp.tensordot(x, y, axes=1)
    E["vecdot"] = lambda x, y: xp.vecdot(x, y)
    E["outer"] = lambda x, y: la.outer(x[0], y[0])
    E["concat"] = lambda x, y: xp.concat([x, y])
    E["stack"] = lambda x, y: xp.stack([x, y])
    E["isin"] = lambda x, y: xp.isin(xp.astype(x, xp.int64), xp.astype(y, xp.int64))
    E["searchsorted"] = lambda x, y: xp.searchsorted(x[0], y[0])
    E["clip-array-bound"] = lambda x, y: xp.clip(x, y, None)
    E["map_blocks"] = lambda x, y: cubed.map_blocks(lambda a, b: a + b, x, y, dtype=x.dtype)
    E["apply_gufunc"] = lambda x, y: cubed.apply_gufunc(lambda a, b: a + b, "(),()->()", x, y, output_dtypes=x.dtype)
    E["compute"] = lambda x, y: cubed.compute(x + 1, y + 1)
    E["plan"] = lambda x, y: cubed.plan(x + 1, y + 1)
    E["visualize"] = lambda x, y: cubed.visualize(x + 1, y + 1, filename=os.path.join(tempfile.mkdtemp(), "v"))
    E["store"] = lambda x, y: cubed.store([x + 1, y + 1], [tempfile.mkdtemp() + "/a.zarr", tempfile.mkdtemp() + "/b.zarr"], compute=True)
    E["take-by-array"] = lambda x, y: xp.take(x, xp.astype(y[0, :2], xp.int64) * 0, axis=0)
    E["index-by-array"] = lambda x, y: x[xp.astype(y[0, :2], xp.int64) * 0]
    # may accept: each output derives from one argument
    E["broadcast_arrays"] = lambda x, y: xp.broadcast_arrays(x, y)
    E["meshgrid"] = lambda x, y: xp.meshgrid(x[0], y[0])
    return E


PER_ARGUMENT = {"broadcast_arrays", "meshgrid"}
EAGER_INDEX = {"take-by-array", "index-by-array"}


def mixes_inputs(result, x, y):
    """Does any returned array's plan contain nodes of BOTH inputs?"""
    import cubed
    outs = [r for r in (result if isinstance(result, (tuple, list)) else [result]) if isinstance(r, cubed.Array)]
    for r in outs:
        names = set(r._plan.dag.nodes)
        if x.name in names and y.name in names:
            return True
    return False


def run(chk):
    import cubed
    import cubed.array_api as xp
    from cubed.utils import convert_to_bytes
    warnings.simplefilter("ignore")
    rng = random.Random(chk.seed + 1801)
    chk.rule = ("(a) every multi-array entry point x every Spec field differing; (b) random size literals (up to 17+7 digits, exponent, "
                "underscore, unit, spaces, ~15% malformed) with the exact byte count computed by TLC from MemSize.tla; non-trivial = "
                "(a) all, (b) literals with a fraction, exponent or unit; distinct = distinct (entry, field) / literal")
    # ---- (b) literals
    nlit = 4000 if chk.tier == "quick" else 150000
    fixed = ["64361406039197.25kB", "1.1kB", "9007199254740993", "9007199254740993B", "0.000001TB", "1e3", "1e-3kB", "123456789012345678PB",
             "1.2 MB", "100_000", "500B", "50.0", ".5kB", "5.kB", "+5MB", "-5MB", "1EB", "1kb", "kB", "", " ", "1 0kB"]
    lits = fixed + [gen_literal(rng) for _ in range(nlit)]
    lits = list(dict.fromkeys(lits))
    for off in range(0, len(lits), 20000):
        batch = lits[off:off + 20000]
        exp = tlc_bytes(chk, batch, f"literals-{off // 20000}")
        for i, lit in enumerate(batch):
            ok, digits = exp[i]
            try:
                got = convert_to_bytes(lit)
                gok = True
            except ValueError:
                got, gok = None, False
            except Exception as e:
                got, gok = f"{type(e).__name__}", None
            nontriv = any(c in lit for c in ".eEkMGTP")
            chk.case(key=("lit", lit), nontrivial=nontriv,
                     sample=dict(literal=lit, reference=(digits if ok else "reject"), cubed=(str(got) if gok else "reject")) if i % 900 == 5 else None)
            chk.trace_validated()
            if gok is None:
                chk.violation(f"convert_to_bytes({lit!r}) raised {got} (only ValueError is an explicit rejection)", replay=dict(literal=lit))
            elif ok and gok and str(int(got)) != digits:
                chk.violation(f"convert_to_bytes({lit!r}) = {got}, exact value is {digits} bytes", replay=dict(literal=lit))
            elif (not ok) and gok:
                chk.violation(f"convert_to_bytes({lit!r}) = {got} but the literal is not a whole number of bytes in decimal SI "
                              f"notation (reference rejects)", replay=dict(literal=lit))
            elif ok and not gok:
                # rejecting a valid literal is permitted by the property ("interpreted exactly or rejected"); recorded
                chk.drift.append(dict(note="valid literal rejected", literal=lit, exact=digits))
    # the same through Spec
    for lit, want in (("1.5GB", 1_500_000_000), ("250 MB", 250_000_000), (123456, 123456)):
        sp = cubed.Spec(work_dir=tempfile.gettempdir(), allowed_mem=lit, reserved_mem="1kB")
        if sp.allowed_mem != want or sp.reserved_mem != 1000:
            chk.violation(f"Spec(allowed_mem={lit!r}).allowed_mem = {sp.allowed_mem}, expected {want}", replay=dict(literal=str(lit)))
    # ---- (a) mixed specs
    work = tempfile.mkdtemp(prefix="c18-")
    A, others = spec_pairs(work)
    data = np.arange(16, dtype=np.float64).reshape(4, 4) + 1
    E = entry_points()
    accepted_ok = []
    for name, fn in E.items():
        for field, B in others.items():
            A_ = A
            if isinstance(B, tuple):
                A_, B = B
            x = xp.asarray(data, chunks=(2, 2), spec=A_)
            y = xp.asarray(data, chunks=(2, 2), spec=B)
            chk.case(key=("mix", name, field), nontrivial=True,
                     sample=dict(entry=name, differing_field=field) if (name, field) in (("add", "allowed_mem"), ("store", "work_dir")) else None)
            chk.trace_validated()
            try:
                res = fn(x, y)
            except ValueError:
                continue
            except Exception as e:
                chk.violation(f"{name} with Specs differing in {field}: raised {type(e).__name__}: {str(e)[:100]} instead of ValueError",
                              replay=dict(entry=name, field=field))
                continue
            if name in PER_ARGUMENT and not mixes_inputs(res, x, y):
                accepted_ok.append((name, field))
                continue
            if name in EAGER_INDEX and not mixes_inputs(res, x, y):
                accepted_ok.append((name, field))
                continue
            chk.violation(f"{name} accepted arrays whose Specs differ in {field}: one computation would run under two resource "
                          f"specifications", replay=dict(entry=name, field=field))
    chk.extra["accepted_per_argument"] = sorted(set(n for n, _ in accepted_ok))
    # the budget used is the Spec's
    for am, rm in ((123_456_789, 0), (50_000_000, 1_000_000)):
        sp = cubed.Spec(work_dir=work, allowed_mem=am, reserved_mem=rm)
        z = xp.add(xp.asarray(data, chunks=(2, 2), spec=sp), 1)
        fp = z.plan()
        if fp.allowed_mem != am:
            chk.violation(f"FinalizedPlan.allowed_mem = {fp.allowed_mem}, Spec says {am}", replay=dict(allowed=am))
        for n, d in fp.dag.nodes(data=True):
            po = d.get("primitive_op")
            if po is not None and (po.allowed_mem != am or po.reserved_mem != rm):
                chk.violation(f"operation {n} runs under allowed_mem={po.allowed_mem} reserved_mem={po.reserved_mem}, Spec says {am}/{rm}",
                              replay=dict(allowed=am, reserved=rm))
    import shutil
    shutil.rmtree(work, ignore_errors=True)


if __name__ == "__main__":
    sys.exit(main(run, "C18"))
