"""C04 — over-budget plans are refused before anything runs; fusion stays within budget.
P1: Optimize.tla: NothingBeforeValidate, RefusedWritesNothing, FusedNotLess, DefaultStaysInBudget over DAG shapes x projected
    memories x budgets x forced sets; switches MemGuard=FALSE / FusedProj=min / ValidateFirst=FALSE must violate.
P4: for generated programs the budget is put exactly at, just below and just above every distinct per-operation projection
    (x reserved_mem in {0, r} x optimizer x entry point in {Array.compute, cubed.compute, store, to_zarr}); the real pre/post
    DAGs, their projections and the admission trace (executor entered? anything written or created on disk? refused?) are
    judged by OptTrace.tla (Focus=C04)."""
import os
import random
import sys
import warnings

import numpy as np

sys.path.insert(0, os.path.dirname(os.path.dirname(os.path.abspath(__file__))))
from harness.core import main  # noqa
from harness import programs, traced, optmc  # noqa
from checks import optcheck, seqexec  # noqa
from checks.c02 import p1  # noqa


def run(chk):
    import cubed
    from cubed.core.optimization import fuse_all_optimize_dag
    warnings.simplefilter("ignore")
    chk.rule = ("programs (structured DAG families with several fusable predecessors, random programs, rechunks) x reserved_mem "
                "x allowed_mem in {m-1, m, m+1} for each distinct projection m x optimizer in {default, off, fuse_all} x entry "
                "point; non-trivial = the budget is within 1 byte of some operation's projection; distinct = (program, budget, "
                "optimizer, entry)")
    p1(chk, ["chain3", "diamond", "rep", "mixed"] if chk.tier == "thorough" else ["chain3", "diamond", "rep"],
       [("MemGuard=FALSE", dict(memguard=False, mayforce=False), "diamond", "DefaultStaysInBudget"),
        ("FusedProj=min", dict(fusedproj="min"), "diamond", "FusedNotLess"),
        ("ValidateFirst=FALSE", dict(validatefirst=False), "chain3", "NothingBeforeValidate")])
    rng = random.Random(chk.seed + 401)
    nprog = 14 if chk.tier == "quick" else 200
    docs, metas = [], []
    done = tries = 0
    while done < nprog and tries < nprog * 4:
        tries += 1
        m = tries % 4
        if tries <= 2:
            prog, nv = repeated_arg_program(rng, tries)      # always part of the sample: the same array in two argument positions
        elif tries == 3:
            prog, nv = asymmetric_fanin_program()            # always: a light first and a heavy second predecessor, light consumer
        elif m in (0, 1):
            prog, nv = programs.structured(rng)
        elif m == 2:
            prog, nv = fanin_program(rng)
        else:
            prog, nv = programs.gen_program(rng, max_steps=4, dtypes=("int64", "float64"))
        reserved = rng.choice([0, 0, 3000, 10 ** 5])
        if prog.get("family") == "asymmetric-fan-in":
            reserved = 10 ** 5      # the reserved share must be counted once per fused stage, not once per fused operation
        # projections under a roomy budget
        with traced.Session() as s:
            spec = s.spec(allowed_mem=10 ** 9, reserved_mem=reserved)
            try:
                cv, it = seqexec.build(prog, spec)
                arrays = [cv[o] for o in prog["outs"]]
                if not all(isinstance(a, cubed.Array) for a in arrays):
                    continue
                projs = sorted({o["proj"] for o in optcheck.export_dag(cubed.plan(*arrays, optimize_graph=False))["ops"]} |
                               {o["proj"] for o in optcheck.export_dag(cubed.plan(*arrays))["ops"]})
            except programs.DECLINE:
                continue
        if not projs:
            continue
        done += 1
        pick = projs if prog.get("family") in ("repeated-arg", "asymmetric-fan-in") else rng.sample(projs, k=min(3, len(projs)))
        cands = sorted({m_ + d for m_ in pick for d in (-1, 0, 1)} | {max(projs) + 1})
        for allowed in cands:
            if allowed <= reserved:
                continue
            label, og, of, forced = rng.choice([("default", True, None, False), ("default", True, None, False),
                                                ("off", False, None, False), ("fuse_all", True, fuse_all_optimize_dag, True)])
            if prog.get("family") in ("repeated-arg", "asymmetric-fan-in"):
                label, og, of, forced = ("default", True, None, False)      # the clause at stake is DefaultStaysInBudget
            entry = rng.choice(["compute_method", "compute", "store", "to_zarr"])
            with traced.Session() as s:
                try:
                    spec = s.spec(allowed_mem=allowed, reserved_mem=reserved)
                    cv, it = seqexec.build(prog, spec)
                except programs.DECLINE:
                    continue
                arrays = [cv[o] for o in prog["outs"]]
                if entry in ("compute_method", "to_zarr"):
                    arrays = arrays[:1]
                try:
                    if entry in ("store", "to_zarr"):
                        # the plan that is executed includes the store operations: build them lazily to read the plan
                        tg = [os.path.join(s.work, f"plan-tgt-{i}.zarr") for i in range(len(arrays))]
                        lazy = cubed.store(list(arrays), tg, compute=False)
                        pre = optcheck.export_dag(cubed.plan(*lazy, optimize_graph=False))
                        post = optcheck.export_dag(cubed.plan(*lazy, optimize_graph=og, optimize_function=of))
                        cv2, it2 = seqexec.build(prog, spec)      # fresh arrays for the real call (store re-targets in place)
                        arrays = [cv2[o] for o in prog["outs"]][:len(arrays)]
                        requested = [a.name for a in lazy]
                    else:
                        pre = optcheck.export_dag(cubed.plan(*arrays, optimize_graph=False))
                        post = optcheck.export_dag(cubed.plan(*arrays, optimize_graph=og, optimize_function=of))
                        requested = [a.name for a in arrays]
                except programs.DECLINE:
                    continue
                events, exc, ex, new_files = optcheck.admission_events(s, arrays, entry, optimize_graph=og, optimize_function=of)
            if entry in ("store", "to_zarr"):
                # names of the executed plan differ from the planned one (second build): judge admission on projections only
                pass
            doc = dict(pre=pre, post=post, requested=requested, allowed=int(allowed), forced=bool(forced), events=events)
            docs.append(doc)
            metas.append(dict(program=prog, reserved_mem=reserved, allowed_mem=allowed, optimizer=label, entry=entry,
                              projections=[o["proj"] for o in post["ops"]], exception=repr(exc)[:200] if exc else None,
                              new_files=new_files[:5], near=min(abs(allowed - p) for p in [o["proj"] for o in post["ops"]] or [10 ** 9])))
    verdicts = optcheck.validate(chk, "C04", docs)
    for k, (doc, meta) in enumerate(zip(docs, metas), 1):
        verdict, l = verdicts[k]
        chk.case(key=(str(meta["program"]["steps"]), meta["allowed_mem"], meta["reserved_mem"], meta["optimizer"], meta["entry"]),
                 nontrivial=meta["near"] <= 1,
                 sample=dict(steps=[s["op"] for s in meta["program"]["steps"]], allowed=meta["allowed_mem"], reserved=meta["reserved_mem"],
                             projections=meta["projections"], optimizer=meta["optimizer"], entry=meta["entry"], events=doc["events"],
                             verdict=verdict) if k % 15 == 1 else None)
        chk.trace_validated()
        if verdict != "ok":
            chk.violation(f"{meta['entry']} optimizer={meta['optimizer']} allowed={meta['allowed_mem']} reserved={meta['reserved_mem']} "
                          f"projections pre={[o['proj'] for o in doc['pre']['ops']]} post={meta['projections']} events={doc['events']} "
                          f"exception={meta['exception']}: rejected by OptTrace clause {verdict}", replay=dict(meta=meta, doc=doc))
        elif doc["events"] and doc["events"][-1] == "error":
            chk.drift.append(dict(note="accepted plan failed during execution (C17's business)", meta=meta))
    chk.extra["programs"] = done
    chk.extra["refusals"] = sum(1 for d in docs if d["events"] and d["events"][-1] == "refuse")
    chk.extra["within_1_byte"] = sum(1 for m in metas if m["near"] <= 1)


def fanin_program(rng):
    """An operation with two fusable predecessors whose retained chunks make the fused peak exceed every single operation:
    (a+b)*(c+d), plus a variant with three."""
    r, c = rng.choice([(20, 20), (30, 10), (16, 16)])
    ch = [rng.choice([r, r // 2]), rng.choice([c, c // 2])]
    inputs = [dict(shape=[r, c], chunks=ch, dtype="float64", seed=i, pattern="lin", src="asarray") for i in range(4)]
    steps = [dict(op="add", args=[0, 1]), dict(op="add", args=[2, 3]), dict(op="multiply", args=[4, 5])]
    outs = [6]
    if rng.random() < 0.4:
        steps += [dict(op="negative", args=[0]), dict(op="add", args=[6, 7])]
        outs = [8]
    prog = dict(inputs=inputs, steps=steps, outs=outs, family="fan-in")
    return prog, programs.Interp(np, False).run(prog)


def asymmetric_fanin_program():
    """less(negative(x), add(y, z)): the second fused predecessor (two inputs) needs more than the first (one input) and more
    than the consumer (boolean output), so the fused operation's peak is reached in a LATER stage of the fused task."""
    inputs = [dict(shape=[20, 50], chunks=[20, 50], dtype="float64", seed=i, pattern="lin", src="asarray") for i in range(3)]
    steps = [dict(op="negative", args=[0]), dict(op="add", args=[1, 2]), dict(op="less", args=[3, 4])]
    prog = dict(inputs=inputs, steps=steps, outs=[5], family="asymmetric-fan-in")
    return prog, programs.Interp(np, False).run(prog)


def repeated_arg_program(rng, k):
    """c = g(b, b) with b = f(x, y): one predecessor operation feeds two argument positions, so the fused task holds b's inputs
    and both copies' worth of accounting; budgets are taken at every projection of the plain and the roomy-fused plan +-1."""
    r, c = [(20, 20), (16, 24)][k % 2]
    ch = [[r, c], [r // 2, c]][k % 2]
    inputs = [dict(shape=[r, c], chunks=ch, dtype="float64", seed=i, pattern="lin", src="asarray") for i in range(2)]
    steps = [dict(op="add", args=[0, 1]), dict(op="multiply", args=[2, 2])]
    outs = [3]
    if k % 2 == 0:
        steps = [dict(op="negative", args=[0]), dict(op="add", args=[2, 2]), dict(op="negative", args=[3])]
        outs = [4]
    prog = dict(inputs=inputs, steps=steps, outs=outs, family="repeated-arg")
    return prog, programs.Interp(np, False).run(prog)


if __name__ == "__main__":
    sys.exit(main(run, "C04"))
