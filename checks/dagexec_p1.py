"""P1 jobs on spec/DagExec.tla shared by C05, C06, C07, C09, C13."""
from harness.tlc import run_tlc
from harness import dagmc

INV = ["NoBadRead", "FinalGood", "SkipOnlyComplete", "EventsOk", "SingleWriter", "Covered"]
PROP = ["NoWipe", "OnlyGoodOverwrites", "NoRecomputeOfComplete"]


def job(chk, label, plan, inv=INV, prop=PROP, timeout=900, expect=None, **c):
    if isinstance(expect, str):
        # a vacuity job names the clause that MUST fail: check only that one (with several workers TLC may otherwise report
        # another clause that the switched design also breaks, depending on the order in which states are explored)
        inv, prop = ([expect] if expect in INV + list(inv) else []), ([expect] if expect in PROP else [])
    r = run_tlc("MC", cfg=dict(spec="Spec", constants=dagmc.constants(**c), invariants=inv, properties=prop, view="View",
                               deadlock=False),
                extra_modules={"MC.tla": dagmc.mc_module("MC", plan)}, timeout=timeout, coverage=(expect is None))
    if r.timeout:
        r.error = f"timeout after {timeout}s"
    rec = chk.add_tlc("DagExec/" + label, r, expect_violation=expect)
    if expect is None and r.violated:
        chk.violation(f"mechanism model DagExec[{label}] violates {r.violated}", replay=dict(job=label, constants=c))
    return r


def run(chk, which):
    """which: subset of {'sched','dup','crash','rmw','multi'}"""
    t = chk.tier == "thorough"
    if "sched" in which:
        job(chk, "chain-seq", dagmc.chain(), sched="seq", maxexec=1)
        job(chk, "diamond-gen", dagmc.diamond(), sched="gen", maxexec=1)
        job(chk, "branches-gen", dagmc.branches(), sched="gen", maxexec=1)
        job(chk, "multiout-gen", dagmc.multiout(), sched="gen", maxexec=1)
        job(chk, "switch-CreateFirst=FALSE", dagmc.chain(), sched="seq", createfirst=False, expect="NoBadRead")
        job(chk, "switch-DepRule=started", dagmc.chain(), sched="seq", deprule="started", expect="NoBadRead")
        job(chk, "switch-DepRule=started-gen", dagmc.diamond(), sched="gen", deprule="started", expect="NoBadRead")
    if "dup" in which:
        job(chk, "chain-seq-dup2", dagmc.chain(), sched="seq", maxexec=2, maxdup=2)
        job(chk, "branches-gen-dup1", dagmc.branches(), sched="gen", maxexec=2, maxdup=1)
        job(chk, "multiout-gen-dup1", dagmc.multiout(), sched="gen", maxexec=2, maxdup=1)
        if t:
            job(chk, "chain-seq-dup3", dagmc.chain(), sched="seq", maxexec=3, maxdup=3, timeout=3000)
            job(chk, "diamond-gen-dup2", dagmc.diamond(), sched="gen", maxexec=2, maxdup=2, timeout=3000)
    if "rmw" in which:
        job(chk, "chain-seq", dagmc.chain(), sched="seq", maxexec=1)
        job(chk, "multiout-gen", dagmc.multiout(), sched="gen", maxexec=1)
        job(chk, "rmw-lost-update", dagmc.rmw(), inv=["FinalGood"], prop=[], sched="seq", expect="FinalGood")
    if "crash" in which:
        job(chk, "chain-crash", dagmc.chain(), sched="seq", maxexec=1, maycrash=True)
        job(chk, "multiout-crash", dagmc.multiout(), sched="gen", maxexec=1, maycrash=True)
        job(chk, "diamond-crash", dagmc.diamond(), sched="gen", maxexec=1, maycrash=True)
        job(chk, "prefilled-crash-moduloF13", dagmc.chain(False),
            inv=["NoBadRead", "FinalGoodModuloF13", "SkipOnlyComplete", "EventsOk"], sched="seq", maycrash=True)
        job(chk, "prefilled-crash-F13-design-defect", dagmc.chain(False), sched="seq", maycrash=True, expect="FinalGood")
        job(chk, "switch-CreateMode=w", dagmc.chain(), sched="seq", maycrash=True, createmode="w", expect="NoWipe")
        job(chk, "switch-ResumeRule=any", dagmc.chain(), sched="seq", maycrash=True, resumerule="any", expect="SkipOnlyComplete")
        job(chk, "sharded-crash", dagmc.sharded(), sched="seq", maxexec=1, maycrash=True)
        job(chk, "switch-ResumeRule=count-F27", dagmc.sharded(), inv=["SkipOnlyComplete"], prop=[], sched="seq", maycrash=True,
            resumerule="count", expect="SkipOnlyComplete")
        job(chk, "switch-ResumeRule=count-F27-recompute", dagmc.sharded(), inv=[], prop=["NoRecomputeOfComplete"], sched="seq",
            maycrash=True, resumerule="count", expect="NoRecomputeOfComplete")
        if t:
            job(chk, "chain-crash-dup1", dagmc.chain(), sched="seq", maxexec=2, maxdup=1, maycrash=True, timeout=3000)
