"""C19 — acceptance and results do not depend on how resources are configured.
Reference: ApiTrace.tla clause ConfigInvariant.  Each scenario (a generated program, or one public callable from the C16
catalogue) is built, planned and computed under several resource configurations -- the global default configuration, an
explicit Spec with equal settings, another work_dir, an explicit intermediate store, compressor None, another
reserved_mem, an executor set on the Spec, a larger allowed_mem -- and the monitor (Focus=C19) requires the same acceptance
decision (exception type and phase) and the same values for every variant."""
import os
import random
import sys
import warnings

import numpy as np

sys.path.insert(0, os.path.dirname(os.path.dirname(os.path.abspath(__file__))))
from harness.core import main  # noqa
from harness import programs, traced  # noqa
from checks import apitrace  # noqa

BASE = dict(allowed_mem=500_000_000, reserved_mem=0)


def variants(sess):
    """(label, spec factory or None for 'global default config')"""
    import cubed
    from cubed.runtime.create import create_executor
    w = sess.work
    return [
        ("default-config", None),
        ("explicit-equal", lambda: cubed.Spec(work_dir=w, **BASE)),
        ("other-work-dir", lambda: cubed.Spec(work_dir=os.path.join(sess.dir, "work2"), **BASE)),
        ("intermediate-store", lambda: cubed.Spec(work_dir=w, intermediate_store=os.path.join(sess.dir, "istore"), **BASE)),
        ("compressor-none", lambda: cubed.Spec(work_dir=w, zarr_compressor=None, **BASE)),
        ("reserved-mem", lambda: cubed.Spec(work_dir=w, allowed_mem=500_000_000, reserved_mem=1_000_000)),
        ("executor-on-spec", lambda: cubed.Spec(work_dir=w, executor=create_executor("threads"), **BASE)),
        ("larger-allowed", lambda: cubed.Spec(work_dir=w, allowed_mem=2_000_000_000, reserved_mem=0)),
        ("allowed-as-string", lambda: cubed.Spec(work_dir=w, allowed_mem="500MB", reserved_mem=0)),
    ]


def run_scenario(prog, rng, nvar):
    import cubed
    events = []
    labels = []
    with traced.Session() as s:
        os.makedirs(os.path.join(s.dir, "work2"), exist_ok=True)
        vs = variants(s)
        chosen = [vs[0]] + rng.sample(vs[1:], k=min(nvar, len(vs) - 1))
        for vi, (label, mk) in enumerate(chosen):
            labels.append(label)
            if mk is None:
                with cubed.config.set({"spec": dict(work_dir=s.work, **BASE)}):
                    ev, res, ob = apitrace.run_program_steps(prog, s, variant=vi, spec=None)
            else:
                ev, res, ob = apitrace.run_program_steps(prog, s, variant=vi, spec=mk())
            events += ev
    return events, labels


def single_function_programs(rng):
    """One program per generator function (the failure mode is one operator creating a helper array without the caller's spec)."""
    ALL = ["unary", "binary", "cmp", "where", "reduce", "argred", "cum", "reshape", "permute", "expand", "squeeze", "flip", "roll",
           "repeat", "tile", "concat", "stack", "unstack", "broadcast_to", "index", "rechunk", "astype", "matmul", "tensordot", "outer",
           "tril", "take", "moveaxis", "scalar", "diff", "clip", "map_blocks", "vecdot", "searchsorted", "pad", "isin", "cumprod",
           "matrix_transpose", "overlap", "nan", "count_nonzero"]
    out = []
    for kind in ALL:
        for _ in range(20):
            try:
                prog, nv = programs.gen_program(rng, max_steps=1, allow=[kind])
            except RuntimeError:
                break
            if prog["steps"]:
                out.append((prog, nv))
                break
    # forms the generator does not produce
    import numpy as np
    inp = dict(shape=[4, 6], chunks=[2, 3], dtype="int64", seed=2, pattern="lin", src="asarray")
    for steps in ([dict(op="map_blocks_np_first", args=[0])],
                  [dict(op="map_blocks_np_first", args=[0]), dict(op="add", args=[1, 0])]):
        prog = dict(inputs=[inp], steps=steps, outs=[len(steps)])
        out.append((prog, programs.Interp(np, False).run(prog)))
    return out


def tight_rechunk_scenario(rng):
    """A memory-limited rechunk under Specs with the same USABLE memory (allowed - reserved) but different reserved_mem."""
    import cubed
    for _ in range(40):
        prog = programs._rechunk_candidate(rng)
        if programs._count_copy_ops(prog) >= 2:
            break
    A = prog["spec"]["allowed_mem"]
    nv = programs.Interp(np, False).run(prog)
    events, labels = [], []
    with traced.Session() as s:
        for vi, R in enumerate([0, max(1, A // 20), A, 4 * A]):
            spec = cubed.Spec(work_dir=s.work, allowed_mem=A + R, reserved_mem=R)
            ev, res, ob = apitrace.run_program_steps(prog, s, variant=vi, spec=spec)
            events += ev
            labels.append(f"allowed={A + R},reserved={R}")
    return prog, events, labels


def tight_qr_scenario(rng):
    """Tall-and-skinny QR whose first-stage R factor sits just below / just above the size at which tsqr recurses, under Specs
    with the same USABLE memory (allowed - reserved) and different reserved_mem: the decision to recurse, and with it
    acceptance, may depend on usable memory only."""
    import cubed
    c = rng.choice([2, 4])
    k = rng.choice([8, 16])
    rc = c * rng.choice([1, 2])
    M = 8 * c * c * k                          # bytes of R1 (float64, shape (c*k, c))
    U = 8 * M + rng.choice([-8, -8, 0, 8])     # usable memory around 8 * R1
    inp = dict(shape=[rc * k, c], chunks=[rc, c], dtype="float64", seed=rng.randint(0, 9), pattern="lin", src="asarray")
    prog = dict(inputs=[inp], steps=[dict(op="qr", args=[0]), dict(op="matmul", args=[1, 2])], outs=[3], family="tight-qr")
    events, labels = [], []
    with traced.Session() as s:
        for vi, R in enumerate([0, U // 4, U, 4 * U]):
            spec = cubed.Spec(work_dir=s.work, allowed_mem=U + R, reserved_mem=R)
            ev, res, ob = apitrace.run_program_steps(prog, s, variant=vi, spec=spec)
            events += ev
            labels.append(f"allowed={U + R},reserved={R}")
    return prog, events, labels


def run(chk):
    warnings.simplefilter("ignore")
    rng = random.Random(chk.seed + 1901)
    chk.rule = ("one single-function program per generator function + random compositions + structured DAGs, each under the global "
                "default configuration and 3 (quick) / 8 (thorough) other configurations; non-trivial = at least two variants were "
                "accepted and computed; distinct = (program, variant set)")
    nvar = 3 if chk.tier == "quick" else 8
    progs = single_function_programs(rng)
    ncomp = 40 if chk.tier == "quick" else 500
    for k in range(ncomp):
        progs.append(programs.structured(rng) if k % 3 == 0 else programs.gen_program(rng, max_steps=5))
    docs, metas = [], []
    for prog, nv in progs:
        events, labels = run_scenario(prog, rng, nvar)
        docs.append(dict(events=events))
        metas.append(dict(program=prog, variants=labels,
                          summaries=[(e["variant"], e["accepted"], e["exc"], e["value"]) for e in events if e["call"] == "summary"]))
    for _ in range(6 if chk.tier == "quick" else 80):
        prog, events, labels = tight_rechunk_scenario(rng)
        docs.append(dict(events=events))
        metas.append(dict(program=prog, variants=labels,
                          summaries=[(e["variant"], e["accepted"], e["exc"], e["value"]) for e in events if e["call"] == "summary"]))
    for _ in range(4 if chk.tier == "quick" else 60):
        prog, events, labels = tight_qr_scenario(rng)
        docs.append(dict(events=events))
        metas.append(dict(program=prog, variants=labels,
                          summaries=[(e["variant"], e["accepted"], e["exc"], e["value"]) for e in events if e["call"] == "summary"]))
    v = apitrace.validate(chk, "C19", docs)
    for i, (doc, meta) in enumerate(zip(docs, metas), 1):
        verdict, l = v[i]
        acc = sum(1 for s_ in meta["summaries"] if s_[1])
        chk.case(key=(str(meta["program"]["steps"]), str(meta["variants"])), nontrivial=acc >= 2,
                 sample=dict(steps=[s_["op"] for s_ in meta["program"]["steps"]], variants=meta["variants"], summaries=meta["summaries"],
                             verdict=verdict) if i % 25 == 1 else None)
        chk.trace_validated()
        if verdict != "ok":
            ev = doc["events"][l - 1]
            chk.violation(f"program {[s_['op'] for s_ in meta['program']['steps']]}: {verdict}: variant {meta['variants'][ev['variant']]} gives "
                          f"accepted={ev['accepted']} exc={ev['exc']} value={ev['value']} but {meta['variants'][0]} gives "
                          f"{meta['summaries'][0][1:]}", replay=meta)


if __name__ == "__main__":
    sys.exit(main(run, "C19"))
