"""C17 — unsupported requests are refused up front; accepted plans do not fail mid-run.
Reference: ApiTrace.tla clause DeclinedEarly.  Every generated program (NumPy evaluates it, by construction of the
generator) is built one API call at a time, planned and computed; the exception type and the phase in which it occurred are
judged by the monitor (Focus=C17)."""
import os
import random
import sys
import warnings

import numpy as np

sys.path.insert(0, os.path.dirname(os.path.dirname(os.path.abspath(__file__))))
from harness.core import main  # noqa
from harness import programs, traced  # noqa
from checks import apitrace  # noqa


def awkward(rng):
    """Inputs that NumPy handles and cubed may have to decline: odd layouts for reshape / qr / scans, many blocks, size-0 dims."""
    k = rng.choice(["scan-blocks", "reshape", "qr", "qr", "svd", "zero", "clip", "stack-mixed", "stack-mixed", "drop-axis", "repeat0"])
    if k == "scan-blocks":
        n = rng.choice([6, 7, 9, 11, 13, 14, 23])
        inp = dict(shape=[n * 2], chunks=[2], dtype="int64", seed=1, pattern="lin", src="asarray")
        steps = [dict(op=rng.choice(["cumulative_sum", "cumulative_prod"]), args=[0], kw=dict(axis=0))]
        if steps[0]["op"] == "cumulative_prod":
            inp = dict(shape=[n], chunks=[1], dtype="int64", seed=0, pattern="const", src="asarray")
    elif k == "reshape":
        inp = dict(shape=[6, 4], chunks=[rng.choice([1, 2, 4, 5]), rng.choice([1, 3, 4])], dtype="int64", seed=1, pattern="lin", src="asarray")
        steps = [dict(op="reshape", args=[0], kw=dict(shape=rng.choice([[4, 6], [3, 8], [2, 12], [24], [2, 3, 4], [8, 3]])))]
    elif k in ("qr", "svd"):
        c = rng.choice([2, 3, 4])
        r = rng.randint(c + 1, 14)
        inp = dict(shape=[r, c], chunks=[rng.randint(max(1, c - 1), r), c], dtype="float64", seed=1, pattern="lin", src="asarray")
        steps = [dict(op=k, args=[0])]
    elif k == "zero":
        inp = dict(shape=[0, 3], chunks=[1, 2], dtype="int64", seed=1, pattern="lin", src="asarray")
        steps = [dict(op=rng.choice(["sum", "negative", "flip"]), args=[0], kw=dict(axis=0) if True else {})]
        if steps[0]["op"] == "negative":
            steps[0].pop("kw")
    elif k == "repeat0":
        inp = dict(shape=[4, 3], chunks=[2, rng.choice([1, 3])], dtype="int64", seed=1, pattern="lin", src="asarray")
        steps = [dict(op="repeat", args=[0], kw=dict(repeats=0, axis=rng.choice([0, 1, -1])))]
        if rng.random() < 0.5:
            steps.append(dict(op="negative", args=[1]))
    elif k == "clip":
        inp = dict(shape=[5], chunks=[2], dtype="int64", seed=1, pattern="lin", src="asarray")
        steps = [dict(op="clip", args=[0], kw=dict(min=rng.choice([None, -2]), max=rng.choice([None, 3])))]
    elif k == "stack-mixed":
        inp = dict(shape=[6, 3], chunks=[2, 3], dtype="int64", seed=1, pattern="lin", src="asarray")
        order = rng.choice([[0, 1], [1, 0], [1, 0, 1]])
        steps = [dict(op="rechunk", args=[0], kw=dict(chunks=[rng.choice([1, 3, 6]), rng.choice([1, 2, 3])])),
                 dict(op="stack", args=order, kw=dict(axis=rng.choice([0, 1, 2])))]
    else:
        inp = dict(shape=[4, 2], chunks=[rng.choice([2, 4]), 1], dtype="int64", seed=1, pattern="lin", src="asarray")
        steps = [dict(op="sum", args=[0], kw=dict(axis=0))]
    prog = dict(inputs=[inp], steps=steps, outs=[])
    try:
        with np.errstate(all="ignore"):
            nv = programs.Interp(np, False).run(prog)
    except Exception:
        return None
    prog["outs"] = [len(nv) - 1]
    prog["family"] = "awkward-" + k
    return prog, nv


def run(chk):
    warnings.simplefilter("ignore")
    rng = random.Random(chk.seed + 1701)
    chk.rule = ("random programs over all generator functions and dtypes, structured DAG and layout families, and an 'awkward' family "
                "(block counts that are not multiples of the fan-in, reshape layouts, qr layouts, size-0 dims, one-sided clip, mixed "
                "chunkings) built call by call, planned and computed; non-trivial = cubed declined the program or it has >= 2 blocks; "
                "distinct = distinct program")
    n = 150 if chk.tier == "quick" else 3000
    docs, metas = [], []
    k = 0
    while len(docs) < n:
        k += 1
        m = k % 5
        if m == 0:
            got = awkward(rng)
            if got is None:
                continue
            prog, nv = got
        elif m == 1:
            prog, nv = programs.structured(rng)
        elif m == 2:
            prog, nv = programs.layouts(rng)
        else:
            prog, nv = programs.gen_program(rng, max_steps=6)
        with traced.Session() as s:
            spec = s.spec(**prog.get("spec", {}))
            events, results, ob = apitrace.run_program_steps(prog, s, spec=spec)
        docs.append(dict(events=events))
        metas.append(dict(program=prog, outcome=events[-1]["exc"] or "ok"))
    # probe of the open finding F31 (always executed, so the KNOWN-FINDING line reflects the current tree)
    zprog = dict(inputs=[dict(shape=[0, 4], chunks=[1, 2], dtype="int64", seed=1, pattern="lin", src="asarray"),
                         dict(shape=[0, 4], chunks=[1, 4], dtype="int64", seed=2, pattern="lin", src="asarray")],
                 steps=[dict(op="add", args=[0, 1])], outs=[2], family="awkward-zero-mixed")
    with traced.Session() as s:
        events, results, ob = apitrace.run_program_steps(zprog, s, spec=s.spec())
    docs.append(dict(events=events))
    metas.append(dict(program=zprog, outcome=events[-1]["exc"] or "ok"))
    v = apitrace.validate(chk, "C17", docs)
    outcomes = {}
    for i, (doc, meta) in enumerate(zip(docs, metas), 1):
        verdict, l = v[i]
        outcomes[meta["outcome"]] = outcomes.get(meta["outcome"], 0) + 1
        chk.case(key=str(meta["program"]["steps"]) + str(meta["program"]["inputs"]), nontrivial=True,
                 sample=dict(family=meta["program"].get("family", "random"), steps=[s["op"] for s in meta["program"]["steps"]],
                             outcome=meta["outcome"], verdict=verdict) if i % 40 == 1 else None)
        chk.trace_validated()
        if verdict != "ok":
            ev = doc["events"][l - 1]
            chk.fail_or_known(f"program {[s['op'] + str(s.get('kw', '')) for s in meta['program']['steps']]} inputs "
                              f"{[(x['shape'], x['chunks'], x['dtype']) for x in meta['program']['inputs']]}: {verdict} at call "
                              f"{ev['call']}:{ev['name']} exception {ev['exc']}", replay=meta,
                              kind="api-program", family=meta["program"].get("family", ""), clause=verdict)
    chk.extra["outcomes"] = outcomes


if __name__ == "__main__":
    sys.exit(main(run, "C17"))
