"""C20 — serialized arrays compute the same and are never confused with other arrays.
P1: PlanGraph.tla with two processes (per-process name counters, plans merged by node name): every confusion goes through the
    taint name-collision (F10); ValueFixed is violated in the design as it is.
P2: TLC generates two-process histories (arrays built in a sender, shipped, combined with arrays the receiver created before and
    after, computed alone and combined); each process of a scenario runs in a FRESH interpreter (so that name counters are what
    the model says), arrays travel by cloudpickle, every compute is compared with NumPy shadows.  Plus same-process round
    trips of generated programs."""
import json
import os
import random
import subprocess
import sys
import tempfile
import warnings

import numpy as np

sys.path.insert(0, os.path.dirname(os.path.dirname(os.path.abspath(__file__))))
from harness.core import main  # noqa
from harness import programs, traced  # noqa
from checks import plangraph  # noqa

SHIPRUN = os.path.join(os.path.dirname(os.path.dirname(os.path.abspath(__file__))), "harness", "shiprun.py")


def run_scenario(hist, sender_computes=False):
    """Both processes of a scenario in fresh interpreters; returns list of outcome records."""
    d = tempfile.mkdtemp(prefix="c20-")
    try:
        sf = os.path.join(d, "scenario.json")
        json.dump(dict(hist=hist, sender_computes=sender_computes), open(sf, "w"))
        outs = []
        # a process must run before the processes it ships to: order = by first appearance as a sender
        order = []
        for st in hist:
            if st["a"] in ("input", "derive", "ship") and st["p"] not in order:
                order.append(st["p"])       # a receiver that creates nothing itself still has to run
        for pid in order:
            os.makedirs(os.path.join(d, f"work{pid}"), exist_ok=True)
            p = subprocess.run([sys.executable, SHIPRUN, sf, str(pid), d, os.path.join(d, f"work{pid}")], capture_output=True, text=True,
                               timeout=300, env=dict(os.environ, PYTHONWARNINGS="ignore"))
            line = next((l for l in p.stdout.splitlines() if l.startswith("SHIPRUN")), None)
            if line is None:
                outs.append(dict(step=0, what=f"process {pid}", ok=False, err="runner failed: " + p.stderr[-300:]))
                continue
            for o in json.loads(line[7:]):
                o["proc"] = pid
                outs.append(o)
        return outs
    finally:
        import shutil
        shutil.rmtree(d, ignore_errors=True)


def valid_for_replay(hist):
    """Ships only from the first process to the second, and the sender never uses something shipped back."""
    procs = []
    for st in hist:
        if st["a"] in ("input", "derive") and st["p"] not in procs:
            procs.append(st["p"])
    if not procs:
        return False
    first = procs[0]
    owner = {}
    nh = 0
    for st in hist:
        if st["a"] in ("input", "derive", "ship"):
            nh += 1
            owner[nh] = st["p"]
            if st["a"] == "ship" and (owner[st["i"]] != first or st["p"] == first):
                return False
            if st["a"] == "derive" and (owner[st["i"]] != st["p"] or (st["j"] and owner[st["j"]] != st["p"])):
                return False
    # something owned by the receiver must be computed after a ship
    seen_ship = False
    for st in hist:
        if st["a"] == "ship":
            seen_ship = True
        if st["a"] == "compute" and seen_ship and owner.get(st["i"]) != first:
            return True
    return False


def ships_derived(hist):
    kind = {}
    nh = 0
    for st in hist:
        if st["a"] in ("input", "derive", "ship"):
            nh += 1
            kind[nh] = st["a"] if st["a"] != "ship" else kind[st["i"]]
            if st["a"] == "ship" and kind[st["i"]] == "derive":
                return True
    return False


def same_process_roundtrip(rng, n):
    """pickle -> unpickle in the same process: the copy computes the same, alone and combined with the original's relatives."""
    import cloudpickle
    import cubed
    import cubed.array_api as xp
    bad = []
    done = 0
    for _ in range(n):
        prog, nv = programs.gen_program(rng, max_steps=4, dtypes=("int64", "float64"))
        with traced.Session() as s:
            spec = s.spec()
            try:
                cv = programs.Interp(xp, True, spec).run(prog)
            except programs.DECLINE:
                continue
            o = prog["outs"][-1]
            if not isinstance(cv[o], cubed.Array):
                continue
            try:
                y = cloudpickle.loads(cloudpickle.dumps(cv[o]))
                r1 = y.compute()
                r2 = (y + cv[o]).compute() if np.asarray(nv[o]).dtype.kind in "iuf" else None
            except Exception as e:
                bad.append((prog, f"{type(e).__name__}: {str(e)[:120]}"))
                continue
            done += 1
            if not programs.same(r1, nv[o]):
                bad.append((prog, "unpickled copy computes different values"))
            elif r2 is not None and not programs.same(r2, np.asarray(nv[o]) * 2):
                bad.append((prog, "copy + original computes different values"))
    return done, bad


def run(chk):
    warnings.simplefilter("ignore")
    rng = random.Random(chk.seed + 2001)
    chk.rule = ("TLC-simulated two-process histories of PlanGraph.tla (sender builds, ships by cloudpickle, receiver combines with its own "
                "arrays created before/after, computes), each process in a fresh interpreter; plus same-process pickle round trips of "
                "generated programs; non-trivial = a shipped array (or something derived from it) is computed in the receiver; "
                "distinct = distinct history")
    plangraph.p1(chk, two_procs=True, thorough=chk.tier == "thorough")
    n = 25 if chk.tier == "quick" else 500
    hs = []
    for steps in (5, 6, 7):
        got = plangraph.histories(chk, n * 3, steps, chk.seed + steps, procs='{"p1", "p2"}', maxh=5, targets="{}", label=f"ship{steps}")
        ok = [h for h in got if valid_for_replay(h["hist"])]
        # prefer scenarios that ship a DERIVED array (its plan carries operations and lazy targets, not just an input)
        ok.sort(key=lambda h: not ships_derived(h["hist"]))
        hs += ok[:n // 2 + 1]
    for k, hrec in enumerate(hs):
        hist, taint = hrec["hist"], sorted(hrec["taint"])
        outs = run_scenario(hist, sender_computes=(k % 3 != 0))
        fails = [o for o in outs if not o["ok"]]
        chk.case(key=str(hist), nontrivial=True,
                 sample=dict(history=[(st["a"], st["p"], st["i"], st["j"]) for st in hist], model_taint=taint, outcomes=outs[:3]) if k % 10 == 1 else None)
        chk.trace_validated()
        if fails:
            kf = fails[0]["step"]
            taint = sorted(hist[kf]["tb"]) if 0 < kf < len(hist) else taint
            chk.fail_or_known(f"history {[(st['a'], st['p'], st['i'], st['j']) for st in hist]}: process {fails[0].get('proc')} step "
                              f"{fails[0]['step']} {fails[0]['what']}: {fails[0]['err']}", replay=dict(history=hist, outcomes=outs, taint=taint),
                              taint=taint, kind="ship")
    done, bad = same_process_roundtrip(rng, 20 if chk.tier == "quick" else 300)
    chk.extra["same_process_roundtrips"] = done
    for prog, what in bad:
        chk.case(key=str(prog["steps"]))
        chk.violation(f"same-process pickle round trip of {[s['op'] for s in prog['steps']]}: {what}", replay=dict(program=prog))
    chk.extra["two_process_scenarios"] = len(hs)


if __name__ == "__main__":
    sys.exit(main(run, "C20"))
