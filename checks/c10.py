"""C10 — a lazy array's value is fixed when built; inputs and earlier outputs stay intact.
P1: PlanGraph.tla (names, plan merging, shared operation objects, in-place re-targeting by store): TLC shows that in the design
    as it is EVERY change of a built array's value goes through a listed defect pattern (taints retarget-shared = F8,
    retarget-twice = F9, name-collision = F10), and that ValueFixed itself is violated (the defects are real).
P2: TLC generates call histories (new input, derive from one or two arrays, lazy store of any array incl. ancestors of live
    arrays, a second store of the same array, compute of any array) labelled with the model's taints; the harness replays
    them into cubed -- with value-neutral calls interleaved (re-compute with resume, optimization on/off, another default
    executor) -- and after every step compares computed values with NumPy shadows and checks the checksums of in-memory
    inputs, of a Zarr source opened for reading and of every target written earlier."""
import hashlib
import os
import random
import sys
import warnings

import numpy as np

sys.path.insert(0, os.path.dirname(os.path.dirname(os.path.abspath(__file__))))
from harness.core import main  # noqa
from harness import traced  # noqa
from checks import plangraph  # noqa


def sha(a):
    return hashlib.sha1(np.ascontiguousarray(a).tobytes()).hexdigest()[:12]


def _poison(f):
    """A compile_function that deliberately changes what the compiled operation computes: used for ONE throw-away compute, to
    see whether finalising a plan with a compile_function leaks into the user's arrays (later plain computes must not see it)."""
    def g(*a, **k):
        r = f(*a, **k)
        try:
            return r + 1000
        except Exception:
            return r
    return g


def replay(hist, rng, noise=True):
    """Returns dict(failures=[...], steps=n).  A failure = (step index, what)."""
    import cubed
    import cubed.array_api as xp
    import zarr
    warnings.simplefilter("ignore")
    failures = []
    with traced.Session() as s:
        spec = s.spec()
        H, S = [None], [None]           # 1-based handles and NumPy shadows
        inputs_np = []                  # (array, checksum)
        src_path = os.path.join(s.work, "source.zarr")
        zsrc = zarr.create_array(src_path, shape=(4, 6), chunks=(2, 3), dtype="i8")
        zsrc[:] = np.arange(24).reshape(4, 6) * 7 + 3
        src_sum = sha(zsrc[:])
        targets = {}                    # t -> dict(path, expect (np or None), by (handle index))
        ninput = 0
        poisoned = False
        stored_yet = False
        has_resume = any(st["a"] == "computeresume" for st in hist)      # model-level resume: no poisoned throw-away computes
        for k, st in enumerate(hist, 1):
            a = st["a"]
            try:
                if a == "input":
                    ninput += 1
                    if ninput == 2:
                        data = zsrc[:]
                        H.append(cubed.from_zarr(src_path, spec=spec))
                    else:
                        data = (np.arange(24).reshape(4, 6) * (2 * ninput + 1) + ninput) % 97
                        H.append(xp.asarray(data, chunks=(2, 3), spec=spec))
                        inputs_np.append((data, sha(data)))
                    S.append(np.array(data))
                elif a == "derive":
                    i, j = st["i"], st["j"]
                    if j == 0:
                        H.append(xp.add(xp.negative(H[i]), k))
                        S.append(-S[i] + k)
                    else:
                        H.append(xp.subtract(xp.multiply(H[i], 3), H[j]))
                        S.append(3 * S[i] - S[j])
                elif a in ("storelazy", "storeagain"):
                    stored_yet = True
                    i, t = st["i"], st["t"]
                    path = os.path.join(s.work, f"user-target-{t}.zarr")
                    out = cubed.to_zarr(H[i], path, compute=False)
                    H[i] = out if out is not None else H[i]
                    targets.setdefault(t, dict(path=path, expect=None))
                    targets[t]["pending"] = i
                elif a == "computeresume":
                    i = st["i"]
                    r = H[i].compute(resume=True)
                    if not np.array_equal(np.asarray(r), S[i]):
                        failures.append((k, f"compute(h{i}, resume=True) returned values different from those fixed when it was built"))
                    for t, info in targets.items():
                        if info.get("pending") == i:
                            info["expect"] = np.array(S[i])
                            info["pending"] = None
                elif a == "compute":
                    i = st["i"]
                    kw = {}
                    if noise:
                        kw["optimize_graph"] = rng.random() < 0.7
                        if rng.random() < 0.3 and not poisoned and not any(os.path.exists(info["path"]) for info in targets.values()):
                            kw["resume"] = True      # neutral only while no user target holds data (otherwise: the model's ComputeResume)
                        if not stored_yet and not has_resume and rng.random() < 0.35:
                            # throw-away compute with a value-changing compile_function (result ignored; the chunks it leaves in
                            # the intermediate store are overwritten by the plain compute below, which never resumes after this)
                            poisoned = True
                            try:
                                H[i].compute(compile_function=_poison, optimize_graph=kw["optimize_graph"])
                            except Exception:
                                pass
                            kw.pop("resume", None)
                    r = H[i].compute(**kw)
                    if not np.array_equal(np.asarray(r), S[i]):
                        failures.append((k, f"compute(h{i}) returned values different from those fixed when it was built"))
                    for t, info in targets.items():
                        if info.get("pending") == i:
                            info["expect"] = np.array(S[i])
                            info["pending"] = None
                if noise and rng.random() < 0.15:
                    # value-neutral call: change the default executor
                    cubed.config.set({"spec.executor_name": rng.choice(["single-threaded", "threads"])})
            except Exception as e:
                failures.append((k, f"{a} raised {type(e).__name__}: {str(e)[:120]}"))
                if a in ("input", "derive"):
                    H.append(None)
                    S.append(None)
                    break
            # integrity of inputs and of targets written earlier
            for data, cs in inputs_np:
                if sha(data) != cs:
                    failures.append((k, "an in-memory input array was modified"))
            if sha(zsrc[:]) != src_sum:
                failures.append((k, "a Zarr source opened for reading was modified"))
            for t, info in targets.items():
                if info["expect"] is not None and info.get("pending") is None:
                    try:
                        cur = zarr.open_array(info["path"], mode="r")[:]
                        if not np.array_equal(cur, info["expect"]):
                            failures.append((k, f"target {t} written by an earlier store no longer holds what was stored"))
                            info["expect"] = None
                    except Exception as e:
                        failures.append((k, f"target {t} written earlier cannot be read: {type(e).__name__}"))
                        info["expect"] = None
        cubed.config.set({"spec.executor_name": None})
    return failures


def run(chk):
    rng = random.Random(chk.seed + 1001)
    chk.rule = ("TLC-simulated histories of PlanGraph.tla (length 7-9, <= 6 handles, 2 targets) replayed into cubed with value-neutral "
                "calls interleaved; non-trivial = the history contains a store and a later compute; distinct = distinct history")
    plangraph.p1(chk, thorough=chk.tier == "thorough")
    n = 60 if chk.tier == "quick" else 2500
    hs = []
    # every history of 5 calls over <= 3 handles (thorough: 6 calls), restricted to those where a store is followed by a compute
    ex = plangraph.exhaustive_histories(chk, 5, 3, "{1}", "all-histories-5")
    if chk.tier == "thorough":
        ex += plangraph.exhaustive_histories(chk, 6, 3, "{1}", "all-histories-6") + plangraph.exhaustive_histories(chk, 6, 2, "{1, 2}", "all-histories-6b")
    hs += [h for h in ex if plangraph.interesting(h["hist"])]
    chk.extra["exhaustive_histories"] = dict(enumerated=len(ex), replayed=len(hs))
    for steps in (7, 9):
        hs += plangraph.histories(chk, n // 2, steps, chk.seed + steps, label=f"hist{steps}")
    # histories in which compute(resume=True) is a call of the model (taint prefilled-resume = finding F13)
    hs += plangraph.histories(chk, n // 2, 6, chk.seed + 66, maxh=4, label="hist6-resume", resume=True,
                              want=lambda h: any(st["a"] == "computeresume" for st in h["hist"]))
    # ... and the shortest histories on which the model predicts the stale target of F13 (two arrays stored into one target)
    hs += plangraph.histories(chk, 4 if chk.tier == "quick" else 60, 7, chk.seed + 67, maxh=4, targets="{1}", label="hist7-resume-F13", resume=True,
                              want=lambda h: "prefilled-resume" in h["taint"])
    agree = dict(model_bad_real_ok=0, model_ok_real_bad_tainted=0)
    for k, hrec in enumerate(hs):
        hist, taint, mbad = hrec["hist"], set(hrec["taint"]), hrec["bad"]
        failures = replay(hist, rng)
        kinds = [st["a"] for st in hist]
        nontriv = any(x in kinds for x in ("storelazy", "storeagain")) and "compute" in kinds[kinds.index("storelazy") if "storelazy" in kinds else 0:]
        chk.case(key=str(hist), nontrivial=nontriv,
                 sample=dict(history=[(st["a"], st["i"], st["j"], st["t"]) for st in hist], model_taint=sorted(taint), model_bad=mbad,
                             failures=failures[:2]) if k % 30 == 1 else None)
        chk.trace_validated()
        if failures:
            what = f"history {[(st['a'], st['i'], st['j'], st['t']) for st in hist]}: step {failures[0][0]}: {failures[0][1]}"
            # only a taint that had arisen by the failing step can excuse the failure
            kf = failures[0][0]
            t_at = sorted(hist[kf]["tb"]) if kf < len(hist) else sorted(taint)
            chk.fail_or_known(what, replay=dict(history=hist, failures=failures, model_taint=sorted(taint), taint_at_failure=t_at),
                              taint=t_at, kind="history")
            if not mbad:
                agree["model_ok_real_bad_tainted"] += 1
        elif mbad:
            agree["model_bad_real_ok"] += 1
    chk.extra["model_vs_code"] = agree
    chk.extra["histories"] = len(hs)


if __name__ == "__main__":
    sys.exit(main(run, "C10"))
