"""C01 — computed values equal NumPy's for every expression, chunking and executor.
Reference level: spec/Tensor.tla gives the meaning of ~45 array functions on integer tensors; TLC evaluates generated
programs with it (one expected value per requested array).  Every program is then replayed in cubed under several
chunkings of every input (uneven last chunks, single-element chunks, operands chunked differently), optimize_graph on/off and
the local executors; the result must equal the TLA+ value.  NumPy is evaluated too: NumPy != TLA+ means the specification is
wrong (machinery error, not a violation).  Programs using functions outside the integer reference (floats, nan-functions,
mean, qr, searchsorted, pad, ...) are judged by NumPy alone (opaque operators, DESIGN.md section 8)."""
import os
import random
import sys
import warnings

import numpy as np

sys.path.insert(0, os.path.dirname(os.path.dirname(os.path.abspath(__file__))))
from harness.core import main, MachineryError  # noqa
from harness import programs, traced  # noqa
from checks import tensor_eval  # noqa

TLA_POOL = ["unary", "binary", "binary", "cmp", "where", "reduce", "reduce", "argred", "cum", "reshape", "permute", "expand", "squeeze",
            "flip", "roll", "repeat", "concat", "stack", "broadcast_to", "index", "index", "rechunk", "matmul", "outer", "tril",
            "scalar", "diff"]


def rechunked(prog, rng):
    """The same program with other regular chunkings of its inputs."""
    p = dict(prog, inputs=[dict(i) for i in prog["inputs"]])
    mode = rng.choice(["random", "random", "ones", "full", "uneven"])
    for i in p["inputs"]:
        shp = i["shape"]
        if mode == "ones":
            i["chunks"] = [1 for _ in shp]
        elif mode == "full":
            i["chunks"] = [max(1, s) for s in shp]
        elif mode == "uneven":
            i["chunks"] = [max(1, s - 1) if s > 1 else 1 for s in shp]
        else:
            i["chunks"] = [rng.randint(1, max(1, s)) for s in shp]
    return p


def configs(rng, k):
    """(executor name, kwargs, optimize_graph)"""
    out = [("single-threaded", {}, True), ("single-threaded", {}, False)]
    if k % 4 == 0:
        out.append(("threads", dict(max_workers=rng.choice([1, 4]), compute_arrays_in_parallel=rng.random() < 0.5), rng.random() < 0.5))
    if k % 25 == 0:
        out.append(("processes", dict(max_workers=2), True))
    return out


def replay(chk, prog, expect, tag, k, rng, nchunkings, stats):
    """expect: list of numpy arrays for prog['outs'].  Returns nothing; records violations."""
    import cubed
    import cubed.array_api as xp
    from cubed.runtime.create import create_executor
    for c in range(nchunkings):
        p = prog if c == 0 else rechunked(prog, rng)
        for exname, kw, og in configs(rng, k + c):
            with traced.Session() as s:
                spec = s.spec(**p.get("spec", {}))
                try:
                    cv = programs.Interp(xp, True, spec).run(p)
                    arrays = [cv[o] for o in p["outs"]]
                except programs.DECLINE:
                    stats["declined"] += 1
                    continue
                except Exception as e:
                    stats["build_errors"] += 1
                    chk.drift.append(dict(note="build raised an unexpected exception type (C17 judges it)", error=repr(e)[:200], program=p))
                    continue
                try:
                    if all(isinstance(a, cubed.Array) for a in arrays):
                        res = cubed.compute(*arrays, executor=create_executor(exname), optimize_graph=og, **kw)
                    else:
                        res = [np.asarray(a) for a in arrays]
                except Exception as e:
                    stats["compute_errors"] += 1
                    chk.drift.append(dict(note="compute failed (C17 judges it)", error=repr(e)[:200], program=p, executor=exname))
                    continue
            stats["replays"] += 1
            chk.trace_validated()
            for r, e, o in zip(res, expect, p["outs"]):
                if not programs.same(r, e):
                    chk.violation(f"[{tag}] {exname} optimize_graph={og} chunks={[i['chunks'] for i in p['inputs']]}: requested array "
                                  f"#{o} of program {[s['op'] for s in p['steps']]} differs from the reference: got shape "
                                  f"{np.asarray(r).shape} {np.asarray(r).reshape(-1)[:8]} expected shape {np.asarray(e).shape} "
                                  f"{np.asarray(e).reshape(-1)[:8]}", replay=dict(program=p, executor=exname, options=kw, optimize_graph=og))
                    break


def run(chk):
    warnings.simplefilter("ignore")
    rng = random.Random(chk.seed + 101)
    chk.rule = ("(A) integer programs over the functions of Tensor.tla (<= 5 steps, 1-3 inputs, 0-3 dims, extents 1..9, broadcasting, "
                "sharing, several requested arrays), expected values computed by TLC; (B) programs over all generator functions and "
                "dtypes + structured DAG and layout families, NumPy oracle; each replayed under several input chunkings x "
                "{single-threaded, threads, processes} x optimize on/off; non-trivial = some input has >= 2 blocks; distinct = "
                "(program, chunking, executor, optimize)")
    nA = 120 if chk.tier == "quick" else 1200
    nB = 120 if chk.tier == "quick" else 1200
    nch = 2 if chk.tier == "quick" else 3
    stats = dict(replays=0, declined=0, build_errors=0, compute_errors=0)
    # ---- (A) TLA+ evaluated
    cases, keep = [], []
    while len(cases) < nA:
        prog, nv = programs.gen_program(rng, max_steps=5, allow=TLA_POOL, dtypes=("int64",))
        c = tensor_eval.translate(prog, nv)
        if c is None:
            continue
        c["id"] = len(cases)
        cases.append(c)
        keep.append((prog, nv))
    exp = {}
    for off in range(0, len(cases), 600):
        batch = [dict(c, id=i) for i, c in enumerate(cases[off:off + 600])]
        e = tensor_eval.evaluate(chk, batch, f"programs-{off // 600}")
        for i in range(len(batch)):
            exp[off + i] = e[i]
    for k, (c, (prog, nv)) in enumerate(zip(cases, keep)):
        expect = [tensor_eval.to_numpy(t) for t in exp[k]]
        for e, o in zip(expect, prog["outs"]):
            n = np.asarray(nv[o])
            if e.shape != n.shape or not np.array_equal(e, n.astype(np.int64)):
                raise MachineryError(f"Tensor.tla and NumPy disagree on {prog['steps']}: {e} vs {n}")
        multi = any(any(ch < s for ch, s in zip(i["chunks"], i["shape"])) for i in prog["inputs"])
        chk.case(key=("A", str(prog["steps"]), str([i["shape"] for i in prog["inputs"]])), nontrivial=multi,
                 sample=dict(kind="TLA+ evaluated", inputs=[(i["shape"], i["chunks"]) for i in prog["inputs"]], steps=prog["steps"][:4],
                             expected=[t for t in exp[k]][:1]) if k % 50 == 3 else None)
        replay(chk, prog, expect, "TLA+", k, rng, nch, stats)
    # ---- (B) NumPy-only oracle (opaque operators, floats, structured and layout families)
    for k in range(nB):
        m = k % 5
        if m == 0:
            prog, nv = programs.structured(rng)
        elif m == 1:
            prog, nv = programs.layouts(rng)
            if prog.get("family") == "rechunk" and rng.random() < 0.5:
                prog, nv = programs.gen_program(rng, max_steps=6)
        else:
            prog, nv = programs.gen_program(rng, max_steps=6)
        expect = [np.asarray(nv[o]) for o in prog["outs"]]
        multi = any(any(ch < s for ch, s in zip(i["chunks"], i["shape"])) for i in prog["inputs"])
        chk.case(key=("B", str(prog["steps"]), str([i["shape"] for i in prog["inputs"]])), nontrivial=multi,
                 sample=dict(kind="NumPy oracle", inputs=[(i["shape"], i["chunks"], i["dtype"]) for i in prog["inputs"]],
                             steps=[s["op"] for s in prog["steps"]]) if k % 60 == 7 else None)
        fam = prog.get("family")
        replay(chk, prog, expect, "NumPy", k, rng, 1 if fam in ("rechunk", "store", "shard", "region") else nch, stats)
    # ---- (C) single-operation sweep: every generator function on its own, biased to 3-d inputs, several parameter draws
    ALL = ["unary", "binary", "cmp", "where", "reduce", "argred", "cum", "reshape", "permute", "expand", "squeeze", "flip", "roll",
           "repeat", "tile", "concat", "stack", "unstack", "broadcast_to", "index", "rechunk", "astype", "matmul", "tensordot", "outer",
           "tril", "take", "moveaxis", "scalar", "diff", "clip", "map_blocks", "vecdot", "searchsorted", "pad", "isin", "cumprod",
           "matrix_transpose", "overlap", "nan", "count_nonzero"]
    per = 7 if chk.tier == "quick" else 40
    MORE = {"moveaxis": 24, "permute": 12, "index": 16, "pad": 12, "roll": 10, "take": 10, "reshape": 12, "reduce": 12, "argred": 10,
            "concat": 10, "stack": 10, "tensordot": 10}          # functions with large parameter spaces get more draws
    for kind in ALL:
        for j in range(max(per, MORE.get(kind, 0)) if chk.tier == "quick" else per * (3 if kind in MORE else 1)):
            try:
                prog, nv = programs.gen_program(rng, max_steps=1, allow=[kind], ndim=rng.choice([3, 3, 2, 1]))
            except RuntimeError:
                continue
            if not prog["steps"]:
                continue
            expect = [np.asarray(nv[o]) for o in prog["outs"]]
            chk.case(key=("C", str(prog["steps"]), str([i["shape"] for i in prog["inputs"]])), nontrivial=True)
            replay(chk, prog, expect, "single-op", 1, rng, 1, stats)
    # ---- (D) reductions over MANY blocks on skewed block grids (9x3, 10x5, 11x3, 9x3x2, 17x2 ...): the number of combine rounds
    # differs per axis; multi-axis and whole-array reductions, plain and inside a larger expression
    grids = [([9, 3], [1, 1]), ([10, 5], [1, 1]), ([11, 3], [1, 1]), ([9, 3, 2], [1, 1, 1]), ([17, 2], [1, 1]), ([18, 6], [2, 2]),
             ([5, 21], [1, 1]), ([33, 2], [1, 2])]
    if chk.tier == "quick":
        grids = rng.sample(grids, 4)
    for shp, ch in grids:
        for op, kw in (("sum", dict(axis=None)), ("max", dict(axis=[0, 1])), ("mean_sq", dict(axis=None)),
                       ("split_sum", dict(axis=None, split_every=rng.choice([2, 3]))), ("any", dict(axis=[0, 1], keepdims=True))):
            inp = dict(shape=shp, chunks=ch, dtype="int64", seed=rng.randint(0, 9), pattern="lin", src="asarray")
            steps = [dict(op=op, args=[0], kw=kw)]
            if op == "mean_sq":
                steps.append(dict(op="subtract", args=[0, 1]))      # a - mean(a): an extra axis would broadcast away
            prog = dict(inputs=[inp], steps=steps, outs=[len(steps)], family="skewed-grid-reduction")
            try:
                nv = programs.Interp(np, False).run(prog)
            except Exception:
                continue
            chk.case(key=("D", str(prog["steps"]), str(shp)), nontrivial=True)
            replay(chk, prog, [np.asarray(nv[o]) for o in prog["outs"]], "skewed-grid", 1, rng, 1, stats)
    chk.extra.update(stats)


if __name__ == "__main__":
    sys.exit(main(run, "C01"))
