"""Runs of generated programs on cubed's REAL local executors with the observation layer on; traces for DagTrace.tla."""
import copy
import random
import time
import warnings

import numpy as np

from harness import programs, traced
from harness.core import MachineryError
from harness.tlc import validate_traces


def settings(rng, k, heavy_threads=True):
    ex = ["threads"] * 6 + ["single-threaded"] * 2 + ["processes"] * 2
    name = ex[k % len(ex)]
    kw = {}
    if name != "single-threaded":
        kw["compute_arrays_in_parallel"] = rng.random() < 0.6
        bs = rng.choice([None, None, 1, 3])
        if bs is not None:
            kw["batch_size"] = bs
        kw["max_workers"] = rng.choice([1, 2, 8]) if name == "threads" else 2
    return name, kw


def gen_for_exec(rng):
    """Programs with several requested arrays and a few operations; small arrays, >= 2 blocks somewhere."""
    for _ in range(100):
        prog, nv = programs.gen_program(rng, max_steps=6, dtypes=("int64", "int64", "float64", "int32"))
        if len(prog["steps"]) >= 2:
            return prog, nv
    return prog, nv


def matrix_runs():
    """Deterministic part of every tier: one unfused chain whose operations all have many more tasks than the batch size, on every
    concurrent executor x batch_size x compute_arrays_in_parallel (refills and later operations exercise the executor's
    create_futures_func beyond the first submission of the first operation)."""
    inp = dict(shape=[8, 6], chunks=[1, 2], dtype="int64", seed=3, pattern="lin", src="asarray")
    steps = [dict(op="negative", args=[0]), dict(op="scalar_add", args=[1], kw=dict(k=2)), dict(op="add", args=[2, 0]),
             dict(op="sum", args=[3], kw=dict(axis=0))]
    prog = dict(inputs=[inp], steps=steps, outs=[4, 2], family="matrix")
    nv = programs.Interp(np, False).run(prog)
    out = []
    for exname in ("threads", "processes"):
        for bs in (1, 3):
            for par in (False, True):
                kw = dict(batch_size=bs, compute_arrays_in_parallel=par, max_workers=2)
                out.append((prog, nv, exname, kw, False))
    return out


def run_many(chk, focus, nruns, wlat=0.02, extra_programs=(), matrix=True):
    import cubed
    import cubed.array_api as xp
    from cubed.runtime.create import create_executor
    warnings.simplefilter("ignore")
    rng = random.Random(chk.seed * 7919 + 13)
    docs, metas = [], []
    k = 0
    attempts = 0
    t0 = time.time()
    todo = list(extra_programs)
    forced = matrix_runs() if matrix else []
    nruns += len(forced)
    while len(docs) < nruns and attempts < nruns * 4:
        attempts += 1
        if forced:
            prog, nv, exname, kw, optimize = forced.pop(0)
        else:
            if todo and attempts % 2 == 1:
                prog, nv = todo.pop(0)
            else:
                prog, nv = gen_for_exec(rng)
            exname, kw = settings(rng, k)
            if prog.get("family") and exname != "single-threaded" and rng.random() < 0.8:
                kw["compute_arrays_in_parallel"] = True      # hand-shaped DAGs are about generations: run them in parallel mostly
            optimize = rng.random() < 0.6
        with traced.Session(wlat=wlat, wlat_random=True) as s:
            spec = s.spec()
            try:
                cv = programs.Interp(xp, True, spec).run(prog)
            except programs.DECLINE:
                continue
            arrays = [cv[o] for o in prog["outs"]]
            res, exc, plan, evs, cb = traced.run_compute(arrays, s, executor=create_executor(exname), optimize_graph=optimize, **kw)
        meta = dict(program=prog, executor=exname, options=kw, optimize_graph=optimize)
        k += 1
        if exc is not None:
            if isinstance(exc, ValueError) and plan is None:
                continue    # refused before execution (C04/C17 judge that)
            # a fault-free accepted run failed: C17's business, but it also leaves the trace without an end
            meta["exception"] = repr(exc)[:300]
        if plan is None:
            continue
        total = int(cb.plan.num_tasks) if getattr(cb, 'plan', None) is not None else -1
        doc = traced.to_dagtrace(plan, evs, total=total)
        ok_vals = exc is None and all(programs.same(r, nv[o]) for r, o in zip(res, prog["outs"]))
        meta["values_equal_numpy"] = bool(ok_vals)
        meta["events"] = len(doc["events"])
        meta["ntasks"] = sum(o["nt"] for o in plan["ops"])
        docs.append(doc)
        metas.append(meta)
    from harness.tlc import validate_traces_parallel
    verdicts, results = validate_traces_parallel("DagTrace", docs, constants=dict(Focus=focus), batch=6, jobs=8)
    for n, r in enumerate(results):
        chk.add_tlc(f"DagTrace[{focus}]/batch{n}", r)
    if len(verdicts) != len(docs):
        raise MachineryError(f"DagTrace returned {len(verdicts)} verdicts for {len(docs)} traces")
    return docs, metas, verdicts


def failed_only_here(meta):
    """A fault-free run of an accepted plan raised on a real executor: does the same program, with the same optimisation setting,
    complete on the plain single-threaded executor?  If so the failure belongs to the executor / its options."""
    import cubed
    import cubed.array_api as xp
    from cubed.runtime.create import create_executor
    with traced.Session() as s:
        try:
            cv = programs.Interp(xp, True, s.spec()).run(meta["program"])
            cubed.compute(*[cv[o] for o in meta["program"]["outs"]], executor=create_executor("single-threaded"),
                          optimize_graph=meta["optimize_graph"])
            return True
        except Exception:
            return False


def report_failed_runs(chk, focus, metas):
    """Executor-specific failures of fault-free runs: the computation did not complete, so the events of the operations that never
    ended are missing (C13) and nothing can be said about the reads that never happened (C07); both checks report it."""
    for meta in metas:
        if meta.get("exception") and meta["executor"] != "single-threaded" and failed_only_here(meta):
            chk.violation(f"{focus}:ExecutorFailedOnFaultFreeRun {meta['executor']} {meta['options']} optimize={meta['optimize_graph']}: "
                          f"compute raised {meta['exception'][:160]} although the same program completes on the single-threaded "
                          f"executor", replay=dict(meta=meta))


def selftest(chk, focus, doc):
    """The monitor is bound to the records: three corruptions of an accepted trace must each be rejected."""
    muts = []
    exp = []
    evs = doc["events"]
    if focus in ("C07", "all"):
        # move the first data read of a produced array to just before its producer's opend
        prod = {a["name"]: a["prod"] for a in doc["plan"]["arrays"] if a["prod"]}
        gi = next((i for i, e in enumerate(evs) if e["ev"] == "getcall" and e["data"] and e["arr"] in prod), None)
        if gi is not None:
            p = prod[evs[gi]["arr"]]
            oi = next(i for i, e in enumerate(evs) if e["ev"] == "opend" and e["op"] == p)
            d = copy.deepcopy(doc)
            g = d["events"].pop(gi)
            d["events"].insert(oi, g)
            muts.append(d)
            exp.append("C07:ReadBeforeProducerEnded")
            d = copy.deepcopy(doc)
            ri = next(i for i, e in enumerate(d["events"]) if e["ev"] == "getret" and e["id"] == evs[gi]["id"])
            d["events"][ri]["hit"] = False
            muts.append(d)
            exp.append("C07:ReadFellBackToFill")
    if focus in ("C13", "all"):
        d = copy.deepcopy(doc)
        ti = next(i for i, e in enumerate(d["events"]) if e["ev"] == "taskend")
        d["events"].pop(ti)
        muts.append(d)
        exp.append("C13:TaskCountMismatch")
        d = copy.deepcopy(doc)
        oi = next(i for i, e in enumerate(d["events"]) if e["ev"] == "opend")
        d["events"].insert(oi + 1, dict(d["events"][oi]))
        muts.append(d)
        exp.append("C13:OpEndOrder")
    if not muts:
        return
    v, r = validate_traces("DagTrace", [doc] + muts, constants=dict(Focus=focus))
    chk.add_tlc(f"DagTrace[{focus}]/selftest", r)
    got = [v[i + 1][0] for i in range(len(muts) + 1)]
    chk.extra["binding_selftest"] = dict(expected=["ok"] + exp, got=got)
    if got != ["ok"] + exp:
        raise MachineryError(f"binding self-test failed: expected {['ok'] + exp}, got {got}")
