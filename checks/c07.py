"""C07 — executors never let a task read data its producers have not finished writing.
P1: DagExec.tla over DAG shapes x schedulers, with the switches CreateFirst=FALSE / DepRule="started" that must violate.
P4: generated programs on the REAL executors (single-threaded, threads, processes) x options, write latency injected
    inside LocalStore.set so that a missing barrier is an ordering fact; traces judged by DagTrace.tla (Focus=C07)."""
import os
import sys

sys.path.insert(0, os.path.dirname(os.path.dirname(os.path.abspath(__file__))))
from harness.core import main  # noqa
from checks import dagexec_p1, realexec, suitetrace  # noqa


def backup_runs(chk):
    """Real threads executor with use_backups=True: 12 tasks, the first write of one chunk is slow, so a backup twin is launched
    (real should_launch_backup), wins, the operation ends, and the straggler's identical write arrives late.  The monitor must
    accept the late byte-identical write and nothing else; task counts must still match (one delivery per input)."""
    import numpy as np
    import cubed
    import cubed.array_api as xp
    from cubed.runtime.create import create_executor
    from harness import traced
    from harness.tlc import validate_traces
    docs, metas = [], []
    for focus_chunk in (("c/3/0", 3.0), ("c/0/2", 2.5)) if chk.tier == "quick" else (("c/3/0", 3.0), ("c/0/2", 2.5), ("c/1/1", 4.0), ("c/2/2", 3.0)):
        with traced.Session() as s0:
            pass
        with traced.Session(slow_key=("array-", 0)) as s:      # placeholder, replaced below once the array name is known
            spec = s.spec()
            a = np.arange(48 * 6).reshape(48, 6) % 13
            x = xp.asarray(a, chunks=(4, 2), spec=spec)          # 12 x 3 = 36 tasks per op
            y = xp.add(xp.negative(x), 1)
            z = xp.sum(y.rechunk((48, 2)), axis=0)
            import os
            os.environ["CUBED_VERIF_SLOW_KEY"] = f"{y.name}/{focus_chunk[0]}|{focus_chunk[1]}"
            res, exc, plan, evs, cb = traced.run_compute([z], s, executor=create_executor("threads"), use_backups=True,
                                                         optimize_graph=False, max_workers=8)
            os.environ.pop("CUBED_VERIF_SLOW_KEY", None)
        if exc is not None or plan is None:
            chk.violation(f"threads executor with use_backups=True and a straggling write of {focus_chunk[0]}: compute raised "
                          f"{type(exc).__name__}: {str(exc)[:120]}", replay=dict(chunk=focus_chunk))
            continue
        total = int(cb.plan.num_tasks)
        doc = traced.to_dagtrace(plan, evs, total=total)
        launched = sum(1 for e in evs if e["k"] == "slowwrite")
        dup_sets = len([1 for e in evs if e["k"] == "set" and e["key"].endswith(focus_chunk[0])])
        ok_vals = np.array_equal(res[0], (-a + 1).sum(axis=0))
        docs.append(doc)
        metas.append(dict(chunk=focus_chunk, slow_writes=launched, writes_of_that_chunk=dup_sets, values_ok=bool(ok_vals)))
    if docs:
        v, r = validate_traces("DagTrace", docs, constants=dict(Focus="all"), timeout=900)
        chk.add_tlc("DagTrace[all]/backup-straggler", r)
        for k, (doc, meta) in enumerate(zip(docs, metas), 1):
            verdict, l = v.get(k, ("missing", 0))
            chk.case(key=("backup", str(meta["chunk"])), nontrivial=meta["writes_of_that_chunk"] >= 2)
            chk.trace_validated()
            if verdict != "ok":
                ev = doc["events"][l - 1] if 0 < l <= len(doc["events"]) else None
                chk.violation(f"threads + use_backups with a straggling write: trace rejected by DagTrace clause {verdict} at event {l}: {ev}",
                              replay=dict(meta=meta, clause=verdict, event=ev))
            elif not meta["values_ok"]:
                chk.violation("threads + use_backups with a straggling write: wrong values", replay=meta)
    chk.extra["backup_straggler_runs"] = metas


def run(chk):
    chk.rule = ("generated array programs (several requested arrays, rechunks, reductions, fused or not) executed on real "
                "executors x {compute_arrays_in_parallel, batch_size, max_workers, optimize_graph}; store get/set call/return "
                "records + callbacks validated by DagTrace.tla; non-trivial = the run has >= 2 pipelined operations and at "
                "least one data read of a produced array; distinct = (executor, options, plan shape)")
    dagexec_p1.run(chk, {"sched"})
    n = 24 if chk.tier == "quick" else 300
    import random
    from harness import programs
    rng = random.Random(chk.seed + 71)
    extra = [programs.structured(rng) for _ in range(n // 2)]
    docs, metas, verdicts = realexec.run_many(chk, "C07", n, extra_programs=extra)
    first_ok = None
    for k, (doc, meta) in enumerate(zip(docs, metas), 1):
        verdict, l = verdicts[k]
        prod = {a["name"] for a in doc["plan"]["arrays"] if a["prod"]}
        reads = sum(1 for e in doc["events"] if e["ev"] == "getcall" and e["data"] and e["arr"] in prod)
        nontriv = reads > 0 and len([o for o in doc["plan"]["ops"] if o["name"] != "create-arrays"]) >= 2
        chk.case(key=(meta["executor"], str(sorted(meta["options"].items())), meta["optimize_graph"],
                      tuple(o["nt"] for o in doc["plan"]["ops"])), nontrivial=nontriv,
                 sample=dict(executor=meta["executor"], options=meta["options"], steps=[s["op"] for s in meta["program"]["steps"]],
                             events=meta["events"], produced_reads=reads, verdict=verdict) if k % 5 == 1 else None)
        chk.trace_validated()
        if verdict == "ok" and first_ok is None and reads > 0:
            first_ok = doc
        if verdict != "ok":
            ev = doc["events"][l - 1] if l - 1 < len(doc["events"]) else None
            chk.violation(f"{meta['executor']} {meta['options']}: trace rejected by DagTrace clause {verdict} at event {l}: {ev}",
                          replay=dict(meta=meta, clause=verdict, at=l, event=ev, plan=doc["plan"]))
        elif meta.get("exception") is None and not meta["values_equal_numpy"]:
            chk.drift.append(dict(note="values differ from NumPy although the trace is clean (C01's business)", meta=meta))
    backup_runs(chk)
    realexec.report_failed_runs(chk, "C07", metas)
    suitetrace.run(chk, "C07")      # every computation of the repository's own tests, judged by the same monitor
    if first_ok is not None:
        realexec.selftest(chk, "C07", first_ok)
    chk.extra["executors"] = {e: sum(1 for m in metas if m["executor"] == e) for e in set(m["executor"] for m in metas)}
    chk.assumptions += ["CLOCK_MONOTONIC is system-wide, so call/return records of different processes can be merged by time; "
                        "only non-overlapping intervals are ordered",
                        "LocalStore is the only store type used by local runs"]


if __name__ == "__main__":
    sys.exit(main(run, "C07"))
