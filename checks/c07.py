"""C07 — executors never let a task read data its producers have not finished writing.
P1: DagExec.tla over DAG shapes x schedulers, with the switches CreateFirst=FALSE / DepRule="started" that must violate.
P4: generated programs on the REAL executors (single-threaded, threads, processes) x options, write latency injected
    inside LocalStore.set so that a missing barrier is an ordering fact; traces judged by DagTrace.tla (Focus=C07)."""
import os
import sys

sys.path.insert(0, os.path.dirname(os.path.dirname(os.path.abspath(__file__))))
from harness.core import main  # noqa
from checks import dagexec_p1, realexec  # noqa


def run(chk):
    chk.rule = ("generated array programs (several requested arrays, rechunks, reductions, fused or not) executed on real "
                "executors x {compute_arrays_in_parallel, batch_size, max_workers, optimize_graph}; store get/set call/return "
                "records + callbacks validated by DagTrace.tla; non-trivial = the run has >= 2 pipelined operations and at "
                "least one data read of a produced array; distinct = (executor, options, plan shape)")
    dagexec_p1.run(chk, {"sched"})
    n = 24 if chk.tier == "quick" else 300
    import random
    from harness import programs
    rng = random.Random(chk.seed + 71)
    extra = [programs.structured(rng) for _ in range(n // 2)]
    docs, metas, verdicts = realexec.run_many(chk, "C07", n, extra_programs=extra)
    first_ok = None
    for k, (doc, meta) in enumerate(zip(docs, metas), 1):
        verdict, l = verdicts[k]
        prod = {a["name"] for a in doc["plan"]["arrays"] if a["prod"]}
        reads = sum(1 for e in doc["events"] if e["ev"] == "getcall" and e["data"] and e["arr"] in prod)
        nontriv = reads > 0 and len([o for o in doc["plan"]["ops"] if o["name"] != "create-arrays"]) >= 2
        chk.case(key=(meta["executor"], str(sorted(meta["options"].items())), meta["optimize_graph"],
                      tuple(o["nt"] for o in doc["plan"]["ops"])), nontrivial=nontriv,
                 sample=dict(executor=meta["executor"], options=meta["options"], steps=[s["op"] for s in meta["program"]["steps"]],
                             events=meta["events"], produced_reads=reads, verdict=verdict) if k % 5 == 1 else None)
        chk.trace_validated()
        if verdict == "ok" and first_ok is None and reads > 0:
            first_ok = doc
        if verdict != "ok":
            ev = doc["events"][l - 1] if l - 1 < len(doc["events"]) else None
            chk.violation(f"{meta['executor']} {meta['options']}: trace rejected by DagTrace clause {verdict} at event {l}: {ev}",
                          replay=dict(meta=meta, clause=verdict, at=l, event=ev, plan=doc["plan"]))
        elif meta.get("exception") is None and not meta["values_equal_numpy"]:
            chk.drift.append(dict(note="values differ from NumPy although the trace is clean (C01's business)", meta=meta))
    if first_ok is not None:
        realexec.selftest(chk, "C07", first_ok)
    chk.extra["executors"] = {e: sum(1 for m in metas if m["executor"] == e) for e in set(m["executor"] for m in metas)}
    chk.assumptions += ["CLOCK_MONOTONIC is system-wide, so call/return records of different processes can be merged by time; "
                        "only non-overlapping intervals are ordered",
                        "LocalStore is the only store type used by local runs"]


if __name__ == "__main__":
    sys.exit(main(run, "C07"))
