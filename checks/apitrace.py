"""Step-by-step execution of programs at the public API with observation of the contract boundaries -> ApiTrace documents."""
import hashlib
import os
import warnings

import numpy as np

from harness import obs, programs, traced
from harness.core import MachineryError
from harness.tlc import validate_traces_parallel


def _listing(root):
    out = set()
    for r, dirs, files in os.walk(root):
        if "/trace" in r or r.endswith("/trace"):
            continue
        for f in files:
            out.add(os.path.join(r, f))
        for d in dirs:
            if d != "trace":
                out.add(os.path.join(r, d) + "/")
    return out


class Observer:
    def __init__(self, sess):
        self.s = sess

    def call(self, kind, name, fn, variant=0, **extra):
        """Run fn() and return (result, event)."""
        self.s.events(clear=True)
        before = _listing(self.s.work)
        exc, res = "", None
        try:
            res = fn()
        except BaseException as e:  # noqa
            exc = type(e).__name__
            # a subclass of an allowed type (numpy's AxisError is both a ValueError and an IndexError) counts as that type
            for base in (ValueError, TypeError, NotImplementedError, IndexError):
                if isinstance(e, base) and exc not in ("ValueError", "TypeError", "NotImplementedError", "IndexError"):
                    exc = base.__name__
                    break
            self.last_exc = e
        evs = self.s.events(clear=True)
        after = _listing(self.s.work)
        ev = dict(call=kind, name=name, variant=variant,
                  sets=sum(1 for e in evs if e["k"] == "set"), dels=sum(1 for e in evs if e["k"] == "del"),
                  datagets=sum(1 for e in evs if e["k"] == "get" and not e.get("meta")),
                  entered=any(e["k"] == "exec_enter" or e["k"].startswith("cb_op") for e in evs),
                  newfiles=len(after - before), exc=exc, accepted=True, value="", refusedbeforestart=False)
        ev.update(extra)
        return res, ev


def value_hash(results):
    h = hashlib.sha1()
    for r in results:
        a = np.asarray(r)
        h.update(str(a.shape).encode())
        if a.dtype.kind == "f":
            h.update(np.round(a.astype(np.float64), 9).tobytes())
        else:
            h.update(np.ascontiguousarray(a).tobytes())
    return h.hexdigest()[:16]


def run_program_steps(prog, sess, variant=0, spec=None, visualize=False, compute=True, compute_kw=None):
    """Build the program one API call at a time.  Returns (events, results or None)."""
    import cubed
    import cubed.array_api as xp
    from cubed.runtime.types import Callback
    warnings.simplefilter("ignore")
    ob = Observer(sess)
    events = []
    it = programs.Interp(xp, True, spec)
    vals = []
    declined = False
    for k, inp in enumerate(prog["inputs"]):
        v, ev = ob.call("build", f"input:{inp.get('src', 'asarray')}", lambda inp=inp: it.make_input(inp), variant)
        events.append(ev)
        if ev["exc"]:
            declined = True
            break
        vals.append(v)
    if not declined:
        for st in prog["steps"]:
            if st["op"] in ("store_region", "store_full"):
                it.make_target(st, vals[st["args"][0]])        # the user's own target creation is not cubed's doing
            r, ev = ob.call("build", st["op"], lambda st=st: it.step(st, vals), variant)
            events.append(ev)
            if ev["exc"]:
                declined = True
                break
            if isinstance(r, list):
                vals.extend(r)
            else:
                vals.append(r)
    results = None
    exc_name, phase = "", ""
    if declined:
        exc_name, phase = events[-1]["exc"], "build"
    else:
        arrays = [vals[o] for o in prog["outs"]]
        arrays = [a for a in arrays if isinstance(a, cubed.Array)]
        if arrays:
            _, ev = ob.call("plan", "plan", lambda: cubed.plan(*arrays), variant)
            events.append(ev)
            if ev["exc"]:
                exc_name, phase = ev["exc"], "plan"
            if visualize and not ev["exc"]:
                _, ev2 = ob.call("visualize", "visualize", lambda: cubed.visualize(*arrays, filename=os.path.join(sess.dir, f"viz-{variant}")), variant)
                events.append(ev2)
            if compute and not ev["exc"]:
                class Mark(Callback):
                    def on_operation_start(self, event):
                        obs.mark("cb_opstart", op=event.name)
                res, ev3 = ob.call("compute", "compute", lambda: cubed.compute(*arrays, callbacks=[Mark()], **(compute_kw or {})), variant)
                if ev3["exc"] == "ValueError" and not ev3["entered"] and ev3["sets"] == 0:
                    ev3["refusedbeforestart"] = True       # admission refusal (C04), not a mid-run failure
                events.append(ev3)
                if ev3["exc"]:
                    exc_name, phase = ev3["exc"], "compute"
                else:
                    results = res
    summary = dict(call="summary", name="summary", variant=variant, sets=0, dels=0, datagets=0, entered=False, newfiles=0,
                   exc=(exc_name + "@" + phase) if exc_name else "", accepted=not exc_name,
                   value=value_hash(results) if results is not None else "", refusedbeforestart=False)
    events.append(summary)
    return events, results, ob


def validate(chk, focus, docs):
    v, results = validate_traces_parallel("ApiTrace", docs, constants=dict(Focus=focus), batch=60, jobs=6)
    for n, r in enumerate(results):
        chk.add_tlc(f"ApiTrace[{focus}]/batch{n}", r)
    if len(v) != len(docs):
        raise MachineryError(f"ApiTrace returned {len(v)} verdicts for {len(docs)} docs")
    return v
