"""C12 — declared shape/dtype/chunks are truthful; written blocks match their chunk shape.
P4: every zarr-level write record of every task (intermediates, fused ops, each output of multi-output operators) must have
    value.shape = region shape (TaskTrace clause BlockShapeMismatch is the enabling condition of the write action), and for
    every array of the program the metadata declared before computing = the backing Zarr array's = the computed result's.
P1: DagExec.tla (multi-output plan) for the write discipline the monitor assumes."""
import os
import random
import sys

sys.path.insert(0, os.path.dirname(os.path.dirname(os.path.abspath(__file__))))
from harness.core import main  # noqa
from harness import programs  # noqa
from checks import dagexec_p1, seqexec, suitetrace  # noqa


def qr_program(rng):
    import numpy as np
    c = rng.choice([2, 3, 4])
    r = rng.randint(c + 1, 16)
    rc = rng.randint(max(1, c - 1), r)
    inp = dict(shape=[r, c], chunks=[rc, c], dtype="float64", seed=rng.randint(0, 9), pattern="lin", src="asarray")
    if rng.random() < 0.5:
        prog = dict(inputs=[inp], steps=[dict(op="qr", args=[0])], outs=[1, 2], family="qr")
    else:
        if rng.random() < 0.3:      # wide input: svd works on the transpose
            inp = dict(inp, shape=[c, r], chunks=[c, rc])
        prog = dict(inputs=[inp], steps=[dict(op="svd", args=[0])], outs=[1, 2, 3], family="svd")
    return prog


def run(chk):
    chk.rule = ("generated programs + structured DAGs + layout families (unstack multi-output, rechunks, stores), each run one task "
                "at a time; every awrite record and the (declared, backing, result) metadata triple of every array judged by "
                "TaskTrace.tla; non-trivial = >= 1 array with an uneven last chunk or a multi-output / structured operator; "
                "distinct = (program shape, grids)")
    dagexec_p1.job(chk, "multiout-gen", __import__("harness.dagmc", fromlist=["x"]).multiout(), sched="gen", maxexec=1)
    rng = random.Random(chk.seed + 1201)
    n = 50 if chk.tier == "quick" else 800
    docs, metas, errors = [], [], []
    tries = 0
    # deterministic part: core `reduction` with a mapping per-chunk function over 5 blocks (one first-round group holds a single
    # block: whatever it writes must already have extent 1 along the reduced axis)
    forced = [dict(inputs=[dict(shape=[10], chunks=[2], dtype="int64", seed=2, pattern="lin", src="asarray")],
                   steps=[dict(op="sumsq_red", args=[0], kw=dict(axis=0, keepdims=False))], outs=[1], family="map-reduction"),
              dict(inputs=[dict(shape=[3, 10], chunks=[3, 2], dtype="int64", seed=3, pattern="lin", src="asarray")],
                   steps=[dict(op="sumsq_red", args=[0], kw=dict(axis=1, keepdims=True))], outs=[1], family="map-reduction")]
    # stack of differently chunked inputs in both orders (the declared chunks must be those of the unified inputs)
    for order, rch in (([0, 1], [6, 3]), ([1, 0], [6, 3]), ([1, 0], [3, 1]), ([0, 1], [1, 3])):
        forced.append(dict(inputs=[dict(shape=[6, 3], chunks=[2, 3], dtype="int64", seed=1, pattern="lin", src="asarray")],
                           steps=[dict(op="rechunk", args=[0], kw=dict(chunks=rch)), dict(op="stack", args=order, kw=dict(axis=0))],
                           outs=[2], family="stack-mixed"))
    n += len(forced)
    while len(docs) < n and tries < n * 3:
        tries += 1
        m = tries % 5
        if forced:
            prog = forced.pop(0)
            nv = programs.Interp(__import__("numpy"), False).run(prog)
        elif m == 4:
            prog = qr_program(rng)
            nv = programs.Interp(__import__("numpy"), False).run(prog)
        elif m == 0:
            prog, nv = programs.layouts(rng)
        elif m == 1:
            prog, nv = programs.structured(rng)
        else:
            prog, nv = programs.gen_program(rng, max_steps=5)
        r = seqexec.run_adversarial(prog, nv, seed=rng.randint(0, 10 ** 6), order="fwd", repeats=0.0, optimize=rng.random() < 0.6)
        if r is None:
            continue
        if "doc" not in r:
            errors.append(dict(program=prog, error=r.get("error")))
            continue
        docs.append(r["doc"])
        metas.append(r["meta"])
    verdicts = seqexec.validate(chk, "C12", docs)
    for k, (doc, meta) in enumerate(zip(docs, metas), 1):
        verdict, l = verdicts[k]
        uneven = any(a["back"] and any(len(set(d)) > 1 for d in eval(a["back"].split(" ; ")[2])) for a in doc["plan"]["arrays"])
        chk.case(key=(str(meta["program"]["steps"]), tuple(a["back"] for a in doc["plan"]["arrays"])), nontrivial=uneven,
                 sample=dict(steps=[s["op"] for s in meta["program"]["steps"]],
                             arrays=[(a["name"], a["decl"], a["back"], a["res"]) for a in doc["plan"]["arrays"] if a["decl"]][:3],
                             verdict=verdict) if k % 10 == 1 else None)
        chk.trace_validated()
        if verdict != "ok":
            ev = doc["events"][l - 1] if l - 1 < len(doc["events"]) else None
            bad = [(a["name"], a["decl"], a["back"], a["res"]) for a in doc["plan"]["arrays"]
                   if (a["back"] and a["decl"] != a["back"]) or (a["res"] and a["decl"] != a["res"])]
            chk.violation(f"trace rejected by TaskTrace clause {verdict} at event {l}: "
                          f"{ {k2: v for k2, v in (ev or {}).items() if v not in ('', [], -1, False)} } untrue metadata={bad[:2]}",
                          replay=dict(meta=meta, clause=verdict, at=l, event=ev, untrue=bad))
    suitetrace.run(chk, "C12", files=None if chk.tier == "thorough" else suitetrace.QUICK_FILES_WRITES)   # every zarr-level write of the repository's own tests
    chk.extra["n_errors_in_execution"] = len(errors)
    chk.extra["errors_in_execution"] = errors[:5]


if __name__ == "__main__":
    sys.exit(main(run, "C12"))
