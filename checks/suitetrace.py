"""The repository's own tests as a source of executions: run (part of) /repo's test-suite with harness/pytest_verif.py recording
every computation, then validate every recorded computation with spec/DagTrace.tla (clauses of C07 and C13 evaluated at every
event).  The tests' own assertions judge values; the monitor judges orderings, task counts and callback events the tests never
assert on.  A computation that raised inside the test (tests of refusal / injected failures) is counted but not judged."""
import glob
import json
import os
import shutil
import subprocess
import sys
import tempfile

from harness.core import MachineryError
from harness.tlc import validate_traces_parallel

REPO = os.environ.get("CUBED_REPO") or "/repo"
VERIF = os.path.dirname(os.path.dirname(os.path.abspath(__file__)))

QUICK_FILES = ["cubed/tests/test_executor_features.py", "cubed/tests/test_store.py", "cubed/tests/test_optimization.py",
               "cubed/tests/test_rechunk.py"]
QUICK_FILES_WRITES = ["cubed/tests/test_indexing.py", "cubed/tests/test_store.py", "cubed/tests/test_linalg.py", "cubed/tests/test_rechunk.py",
                      "cubed/tests/array"]
THOROUGH_FILES = ["cubed/tests"]
DESELECT = "not spark and not lithops and not modal and not dask and not beam and not hypothesis"


def record(files, jobs=8, timeout=3000):
    base = tempfile.mkdtemp(prefix="suite-")
    env = dict(os.environ, CUBED_VERIF_SUITE=base, PYTHONHASHSEED="0")
    env["PYTHONPATH"] = os.pathsep.join([VERIF, REPO] + [p for p in env.get("PYTHONPATH", "").split(os.pathsep) if p])
    env.pop("CUBED_VERIF_TRACE", None)
    cmd = ["/venv/bin/python", "-m", "pytest", "-q", "-p", "no:cacheprovider", "-p", "harness.pytest_verif", "--timeout=900",
           "-n", str(jobs), "-k", DESELECT, "-o", "addopts=", "--basetemp", os.path.join(base, "pytest-tmp")] + files
    p = subprocess.run(cmd, cwd=REPO, env=env, capture_output=True, text=True, timeout=timeout)
    tail = [l for l in p.stdout.strip().splitlines() if l.strip()][-1:] or [""]
    return base, p.returncode, tail[0], p.stdout[-3000:] + p.stderr[-2000:]


def write_doc(plan, awrites):
    """TaskTrace document holding only the zarr-level writes of one computation (no task attribution is possible under the real
    executors, and none is needed for the per-write clauses C12:BlockShapeMismatch and C05:PartialChunkWrite)."""
    from checks import seqexec
    ops = [dict(name=o["name"], nt=o["nt"], computed=o["computed"], outs=[x["name"] for x in o["outs"]]) for o in plan["ops"]]
    arrays = [dict(name=a["name"], prod=a["prod"] or "", nkeys=-1, decl="", back="", res="", final="", ref="", rnddup=False,
                   complete=False, zerod=False) for a in plan["arrays"]]
    evs = [e for e in seqexec.map_events(plan, awrites) if e["arr"]]
    return dict(plan=dict(ops=ops, arrays=arrays, resumed=False), events=evs)


def run(chk, focus, files=None, jobs=8):
    """Returns a summary dict; reports violations through chk."""
    files = files or (THOROUGH_FILES if chk.tier == "thorough" else QUICK_FILES)
    base, rc, tail, out = record(files, jobs=jobs)
    try:
        if rc not in (0, 1):
            raise MachineryError(f"pytest run of the repository's tests under the recorder failed (rc={rc}): {out[-1500:]}")
        errs = []
        for p in glob.glob(os.path.join(base, "docs", "*-errors.txt")):
            errs += open(p).read().splitlines()
        docs, metas = [], []
        skipped = 0
        module = "TaskTrace" if focus in ("C05", "C12") else "DagTrace"
        for p in sorted(glob.glob(os.path.join(base, "docs", "*.json"))):
            d = json.load(open(p))
            if d["meta"]["raised"]:
                skipped += 1
                continue
            if module == "TaskTrace":
                doc = write_doc(d["plan"], d["awrites"])
                if not doc["events"]:
                    continue
                d["meta"]["nstore"] = len(doc["events"])
                docs.append(doc)
            else:
                docs.append(d["doc"])
            metas.append(d["meta"])
        if not docs:
            raise MachineryError("the recorder produced no computation documents: " + out[-1500:])
        order = sorted(range(len(docs)), key=lambda i: -len(docs[i]["events"]))
        docs = [docs[i] for i in order]
        metas = [metas[i] for i in order]
        verdicts, results = validate_traces_parallel(module, docs, constants=dict(Focus=focus), batch=25, jobs=8)
        for n, r in enumerate(results):
            chk.add_tlc(f"{module}[{focus}]/suite-batch{n}", r)
        if len(verdicts) != len(docs):
            raise MachineryError(f"{module} returned {len(verdicts)} verdicts for {len(docs)} suite traces")
        bad = 0
        for i, m in enumerate(metas):
            v, pos = verdicts[i + 1]
            chk.trace_validated()
            chk.case(key=("suite", m["test"]), nontrivial=m["nstore"] > 0)
            if v != "ok" and v.startswith(focus if focus != "all" else "C"):
                bad += 1
                ev = docs[i]["events"]
                chk.violation(f"{v} at event {pos} in a computation of the repository test {m['test']} ({m['executor']} {m['options']})",
                              replay=dict(test=m["test"], meta=m, clause=v, position=pos, window=ev[max(0, pos - 6):pos + 2],
                                          plan=docs[i]["plan"]))
        by_exec = {}
        for m in metas:
            by_exec[m["executor"]] = by_exec.get(m["executor"], 0) + 1
        summ = dict(files=files, pytest_rc=rc, pytest_tail=tail, computations=len(docs), not_judged_raised=skipped,
                    events=sum(len(d["events"]) for d in docs), by_executor=by_exec, rejected=bad, recorder_errors=errs[:5],
                    tests_with_computations=len({m["test"] for m in metas}))
        chk.extra.setdefault("suite_traces", {})[focus] = summ
        return summ
    finally:
        shutil.rmtree(base, ignore_errors=True)


if __name__ == "__main__":
    from harness.core import Check
    c = Check("C07", sys.argv[1] if len(sys.argv) > 1 else "quick", 0)
    foc = sys.argv[2] if len(sys.argv) > 2 else "all"
    print(json.dumps(run(c, foc, files=sys.argv[3:] or None), indent=1))
    print(c.violations[:5])
