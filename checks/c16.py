"""C16 — building, planning and visualizing are lazy and free of side effects.
Reference: ApiTrace.tla clause Lazy.  (1) every public callable of cubed, cubed.array_api, cubed.array_api.linalg and
cubed.random (enumerated by introspection at run time; arguments from a recipe table keyed by parameter names; names that
cannot be called that way are reported as uncatalogued) is called with the store / executor / file-system observation on;
(2) generated programs are built call by call, planned and visualized.  The monitor (Focus=C16) requires zero store writes,
deletes, data-chunk reads, new files and executor entries for every build / plan / visualize call.  Eager entry points
(compute, store/to_zarr with compute=True, measure_reserved_mem) and conversions are separate call kinds."""
import inspect
import os
import random
import sys
import warnings

import numpy as np

sys.path.insert(0, os.path.dirname(os.path.dirname(os.path.abspath(__file__))))
from harness.core import main  # noqa
from harness import programs, traced  # noqa
from checks import apitrace  # noqa

EAGER = {"compute", "measure_reserved_mem"}
SKIP = {"Callback", "Spec", "TaskEndEvent", "config", "__version__", "raise_if_computes", "Array", "__array_api_version__",
        "__array_namespace_info__", "e", "inf", "nan", "newaxis", "pi", "bool", "int8", "int16", "int32", "int64", "uint8", "uint16",
        "uint32", "uint64", "float32", "float64", "complex64", "complex128", "finfo", "iinfo"}


def recipes(xp, cubed, spec, sess):
    import zarr
    a = xp.asarray(np.arange(16, dtype=np.float64).reshape(4, 4) / 16 + 0.1, chunks=(2, 2), spec=spec)
    b = xp.asarray(np.arange(16, dtype=np.float64).reshape(4, 4) / 8 + 0.2, chunks=(2, 2), spec=spec)
    ai = xp.asarray(np.arange(16).reshape(4, 4) % 5, chunks=(2, 2), spec=spec)
    bi = xp.asarray(np.arange(16).reshape(4, 4) % 3 + 1, chunks=(2, 2), spec=spec)
    ab = xp.asarray(np.arange(16).reshape(4, 4) % 2 == 0, chunks=(2, 2), spec=spec)
    v = xp.asarray(np.arange(6, dtype=np.float64), chunks=2, spec=spec)
    zpath = os.path.join(sess.work, "src.zarr")
    z = zarr.create_array(zpath, shape=(4, 4), chunks=(2, 2), dtype="f8")
    z[:] = np.arange(16.0).reshape(4, 4)
    R = dict(x=a, x1=a, x2=b, a=a, b=b, array=a, arr=a, condition=ab, obj=np.arange(4.0), shape=(4, 4), size=(4, 4), axis=0,
             dtype=xp.float64, fill_value=1.0, start=0, stop=6, num=4, n_rows=3, chunks=(2, 2), repeats=2, shift=1, repetitions=(2, 1),
             axes=(1, 0), source=0, destination=1, k=0, indices=xp.asarray(np.array([0, 2]), spec=spec), arrays=[a, b],
             pad_width=((1, 1), (0, 0)), func=_ident, store=zpath, sources=a, targets=os.path.join(sess.work, "t0.zarr"),
             test_elements=bi, elements=ai, sorted_x=v, depth=1, signature="(i)->()", from_dtype=xp.float32, to=xp.float64,
             arrays_and_dtypes=[a, b], min=0.2, max=0.8, mode="constant", stream=None, api_version=None, xs=[a, b], spec=spec, n=1)
    INT_FUNCS = {"bitwise_and", "bitwise_or", "bitwise_xor", "bitwise_invert", "bitwise_left_shift", "bitwise_right_shift"}
    BOOL_FUNCS = {"logical_and", "logical_or", "logical_xor", "logical_not", "all", "any"}
    tall = xp.asarray(np.arange(16, dtype=np.float64).reshape(8, 2) / 7 + 0.3, chunks=(4, 2), spec=spec)
    return R, dict(a=a, b=b, ai=ai, bi=bi, ab=ab, v=v, tall=tall), INT_FUNCS, BOOL_FUNCS


def _ident(x, *a, **k):
    return x


def call_plan(name, fn, R, arrs, INT_FUNCS, BOOL_FUNCS):
    """-> (callable thunk, kind) or None if the function cannot be called from the recipe table."""
    special = {
        "from_array": lambda: fn(np.arange(16.0).reshape(4, 4), chunks=(2, 2), spec=R["spec"]),
        "from_zarr": lambda: fn(R["store"], spec=R["spec"]),
        "to_zarr": lambda: fn(arrs["a"], R["targets"], compute=False),
        "store": lambda: fn([arrs["a"]], [R["targets"] + ".2"], compute=False),
        "to_zarr[region,path]": lambda: fn(arrs["a"], R["targets"] + ".r", region=(slice(0, 4), slice(0, 4)), compute=False),
        "store[region,path]": lambda: fn([arrs["a"]], [R["targets"] + ".r2"], regions=[(slice(0, 4), slice(0, 2))], compute=False),
        "store[list]": lambda: fn([arrs["a"], arrs["b"]], [R["targets"] + ".l1", R["targets"] + ".l2"], compute=False),
        "from_array[large]": lambda: fn(np.arange(160000.0).reshape(400, 400), chunks=(200, 200), spec=R["spec"]),     # 1.28 MB in memory
        "asarray[large]": lambda: fn(np.arange(160000.0).reshape(400, 400), chunks=(200, 200), spec=R["spec"]),
        "to_zarr[group-path]": lambda: fn(arrs["a"], R["targets"] + ".g", path="sub/group", compute=False),
        "to_zarr[region,group-path]": lambda: fn(arrs["a"], R["targets"] + ".rg", path="sub", region=(slice(0, 4), slice(0, 4)), compute=False),
        "map_blocks": lambda: fn(_ident, arrs["a"], dtype=np.float64),
        "map_overlap": lambda: fn(_ident, arrs["a"], dtype=np.float64, depth=1, boundary=0.0),
        "apply_gufunc": lambda: fn(np.sum, "(i)->()", arrs["a"], axis=-1, output_dtypes=np.float64),
        "rechunk": lambda: fn(arrs["a"], (4, 1)),
        "pad": lambda: fn(arrs["a"], ((1, 1), (0, 0)), mode="constant"),
        "asarray": lambda: fn(np.arange(4.0), chunks=2, spec=R["spec"]),
        "arange": lambda: fn(0, 6, chunks=2, spec=R["spec"]),
        "linspace": lambda: fn(0.0, 1.0, 5, chunks=2, spec=R["spec"]),
        "eye": lambda: fn(4, chunks=2, spec=R["spec"]),
        "meshgrid": lambda: fn(arrs["v"], arrs["v"]),
        "searchsorted": lambda: fn(arrs["v"], arrs["v"]),
        "matmul": lambda: fn(arrs["a"], arrs["b"]), "tensordot": lambda: fn(arrs["a"], arrs["b"], axes=1),
        "vecdot": lambda: fn(arrs["a"], arrs["b"]), "outer": lambda: fn(arrs["v"], arrs["v"]),
        "qr": lambda: fn(arrs["tall"]), "svd": lambda: fn(arrs["tall"]), "svdvals": lambda: fn(arrs["tall"]), "tsqr": lambda: fn(arrs["tall"]),
        "take": lambda: fn(arrs["a"], R["indices"], axis=0), "where": lambda: fn(arrs["ab"], arrs["a"], arrs["b"]),
        "concat": lambda: fn([arrs["a"], arrs["b"]], axis=0), "stack": lambda: fn([arrs["a"], arrs["b"]]),
        "reshape": lambda: fn(arrs["a"], (16,)), "broadcast_to": lambda: fn(arrs["a"], (2, 4, 4)),
        "squeeze": lambda: fn(arrs["a"][0:1], 0), "expand_dims": lambda: fn(arrs["a"], axis=0),
        "isin": lambda: fn(arrs["ai"], arrs["bi"]), "astype": lambda: fn(arrs["a"], np.float32),
        "random": lambda: fn((4, 4), chunks=(2, 2), spec=R["spec"]), "integers": lambda: fn((4, 4), chunks=(2, 2), spec=R["spec"]),
        "plan": lambda: fn(arrs["a"] + arrs["b"]), "visualize": lambda: fn(arrs["a"] + arrs["b"], filename=os.path.join(os.path.dirname(R["spec"].work_dir), "viz-cat")),
        "compute": lambda: fn(arrs["a"] + 1), "measure_reserved_mem": None,
        "full": lambda: fn((4, 4), 1.5, chunks=(2, 2), spec=R["spec"]), "full_like": lambda: fn(arrs["a"], 2.0),
        "clip": lambda: fn(arrs["a"], 0.2, 0.8), "diff": lambda: fn(arrs["a"], axis=0), "tile": lambda: fn(arrs["a"], (2, 1)),
        "roll": lambda: fn(arrs["a"], 1, axis=0), "repeat": lambda: fn(arrs["a"], 2, axis=0), "moveaxis": lambda: fn(arrs["a"], 0, 1),
        "permute_dims": lambda: fn(arrs["a"], (1, 0)), "flip": lambda: fn(arrs["a"], axis=0), "unstack": lambda: fn(arrs["a"]),
        "can_cast": lambda: fn(np.float32, np.float64), "result_type": lambda: fn(arrs["a"], arrs["b"]),
        "isdtype": lambda: fn(np.float64, "real floating"), "broadcast_arrays": lambda: fn(arrs["a"], arrs["v"][:4]),
        "empty": lambda: fn((4, 4), chunks=(2, 2), spec=R["spec"]), "ones": lambda: fn((4, 4), chunks=(2, 2), spec=R["spec"]),
        "zeros": lambda: fn((4, 4), chunks=(2, 2), spec=R["spec"]),
    }
    if name in special:
        th = special[name]
        if th is None:
            return None
        return th, ("compute" if name in EAGER else "visualize" if name == "visualize" else "plan" if name == "plan" else "build")
    try:
        sig = inspect.signature(fn)
    except (TypeError, ValueError):
        return None
    args, kwargs = [], {}
    x1, x2 = (arrs["ai"], arrs["bi"]) if name in INT_FUNCS else (arrs["ab"], arrs["ab"]) if name in BOOL_FUNCS else (arrs["a"], arrs["b"])
    for pname, p in sig.parameters.items():
        if p.kind in (p.VAR_POSITIONAL, p.VAR_KEYWORD):
            continue
        if p.default is not inspect._empty:
            continue
        if pname in ("x", "x1", "a", "array"):
            val = x1
        elif pname == "x2":
            val = x2
        elif pname in R:
            val = R[pname]
        else:
            return None
        if p.kind == p.KEYWORD_ONLY:
            kwargs[pname] = val
        else:
            args.append(val)
    return (lambda: fn(*args, **kwargs)), "build"


def run(chk):
    import cubed
    import cubed.array_api as xp
    import cubed.array_api.linalg as la
    import cubed.random as cr
    warnings.simplefilter("ignore")
    rng = random.Random(chk.seed + 1601)
    chk.rule = ("(1) every public callable (introspected) called once with recipe arguments (thorough: also plan() and visualize() of "
                "its result); (2) generated programs built call by call + plan + visualize; non-trivial = the call returned a lazy "
                "array or a plan; distinct = (callable) / (program)")
    docs, metas = [], []
    uncatalogued, reached = [], []
    names = []
    for mod, label in ((cubed, "cubed"), (xp, "array_api"), (la, "linalg"), (cr, "random")):
        allnames = getattr(mod, "__all__", None) or [n for n in dir(mod) if not n.startswith("_")]
        for n in allnames:
            obj = getattr(mod, n, None)
            if n in SKIP or not callable(obj) or inspect.isclass(obj) or inspect.ismodule(obj):
                continue
            names.append((label, n, obj))
    # extra call forms of the store entry points (same callables, other argument shapes)
    names += [("cubed", "to_zarr[region,path]", cubed.to_zarr), ("cubed", "store[region,path]", cubed.store), ("cubed", "store[list]", cubed.store),
              ("cubed", "from_array[large]", cubed.from_array), ("cubed.array_api", "asarray[large]", xp.asarray),
              ("cubed", "to_zarr[group-path]", cubed.to_zarr), ("cubed", "to_zarr[region,group-path]", cubed.to_zarr)]
    for label, n, fn in names:
        with traced.Session() as s:
            spec = s.spec()
            R, arrs, INTF, BOOLF = recipes(xp, cubed, spec, s)
            plan = call_plan(n, fn, R, arrs, INTF, BOOLF)
            if plan is None:
                uncatalogued.append(f"{label}.{n}")
                continue
            thunk, kind = plan
            ob = apitrace.Observer(s)
            res, ev = ob.call(kind, f"{label}.{n}", thunk)
            events = [ev]
            if ev["exc"]:
                if ev["exc"] in ("TypeError", "ValueError", "NotImplementedError", "IndexError"):
                    uncatalogued.append(f"{label}.{n} (declined the recipe arguments: {ev['exc']})")
                    continue
            else:
                reached.append(f"{label}.{n}")
                outs = [r for r in (res if isinstance(res, (tuple, list)) else [res]) if isinstance(r, cubed.Array)]
                if outs and kind == "build":
                    _, e2 = ob.call("plan", "plan", lambda: cubed.plan(*outs))
                    events.append(e2)
                    if chk.tier == "thorough" or rng.random() < 0.3:
                        _, e3 = ob.call("visualize", "visualize", lambda: cubed.visualize(*outs, filename=os.path.join(s.dir, "viz")))
                        events.append(e3)
        docs.append(dict(events=events))
        metas.append(dict(what=f"{label}.{n}", kind=kind))
    nprog = 60 if chk.tier == "quick" else 1200
    for k in range(nprog):
        m = k % 4
        prog, nv = programs.structured(rng) if m == 0 else programs.layouts(rng) if m == 1 else programs.gen_program(rng, max_steps=6)
        with traced.Session() as s:
            spec = s.spec(**prog.get("spec", {}))
            events, results, ob = apitrace.run_program_steps(prog, s, spec=spec, visualize=True, compute=False)
        docs.append(dict(events=events))
        metas.append(dict(what=str([st["op"] for st in prog["steps"]]), kind="program", program=prog))
    v = apitrace.validate(chk, "C16", docs)
    for i, (doc, meta) in enumerate(zip(docs, metas), 1):
        verdict, l = v[i]
        chk.case(key=meta["what"], nontrivial=True,
                 sample=dict(what=meta["what"], calls=[(e["call"], e["name"], e["sets"], e["datagets"], e["newfiles"], e["entered"]) for e in doc["events"]][:4],
                             verdict=verdict) if i % 45 == 1 else None)
        chk.trace_validated()
        if verdict != "ok":
            ev = doc["events"][l - 1]
            chk.violation(f"{meta['what']}: {verdict} during {ev['call']}:{ev['name']} (sets={ev['sets']} deletes={ev['dels']} "
                          f"data reads={ev['datagets']} new files={ev['newfiles']} executor entered={ev['entered']})", replay=meta)
    chk.extra["callables_reached"] = len(reached)
    chk.extra["uncatalogued"] = uncatalogued


if __name__ == "__main__":
    sys.exit(main(run, "C16"))
