"""C08 end to end: an IO fault is injected on one chunk key of a stored input for its first k accesses, under the REAL
ThreadsExecutor (tenacity retry wrapper, async_map_unordered, async_map_dag).  compute must succeed iff k <= retries, otherwise
raise the injected error; the faulted key is accessed exactly min(k, retries+1) failing times (+1 successful access if it
recovers); every operation delivers exactly its advertised number of task-end notifications when the run succeeds."""
import os
import warnings

import numpy as np

from harness import obs, traced
from harness.execs import RecordingCallback, export_plan


def run(chk):
    import cubed
    import cubed.array_api as xp
    import zarr
    from cubed.runtime.create import create_executor
    warnings.simplefilter("ignore")
    runs = []
    combos = [(r, k) for r in (0, 1, 2) for k in range(0, r + 3)]
    if chk.tier == "quick":
        combos = [(2, 0), (2, 2), (2, 3), (1, 1), (1, 2), (0, 0), (0, 1)]
    for retries, k in combos:
        for bs in ((None, 2) if chk.tier == "thorough" else (None,)):
            src_key = "c/1/0"
            with traced.Session() as s0:
                src = os.path.join(s0.work, "src.zarr")
                z = zarr.create_array(src, shape=(4, 4), chunks=(2, 2), dtype="i8")
                a = np.arange(16).reshape(4, 4)
                z[:] = a
                faults = {os.path.join(src, src_key): dict(op="get", first=k)} if k else {}
                with traced.Session(faults=faults) as s:
                    spec = s.spec()
                    x = cubed.from_zarr(src, spec=spec)
                    y = xp.add(xp.negative(x), 1)
                    cb = RecordingCallback()
                    kw = dict(retries=retries)
                    if bs:
                        kw["batch_size"] = bs
                    exc, res = None, None
                    try:
                        res = y.compute(executor=create_executor("threads"), callbacks=[cb], **kw)
                    except BaseException as e:  # noqa
                        exc = e
                    evs = s.events()
            nfault = sum(1 for e in evs if e["k"] == "fault")
            npass = sum(1 for e in evs if e["k"] == "faultpass")
            want_ok = k <= retries
            rec = dict(retries=retries, faults_on_first=k, batch_size=bs, outcome="ok" if exc is None else type(exc).__name__,
                       failing_accesses=nfault, later_accesses=npass)
            runs.append(rec)
            chk.case(key=("e2e", retries, k, bs), nontrivial=k > 0)
            chk.trace_validated()
            tag = f"threads executor retries={retries}, chunk {src_key} fails on its first {k} reads, batch_size={bs}"
            if want_ok:
                if exc is not None:
                    chk.violation(f"{tag}: compute raised {type(exc).__name__} although the task succeeds within the retry budget", replay=rec)
                    continue
                if not np.array_equal(res, -a + 1):
                    chk.violation(f"{tag}: wrong values after retries", replay=rec)
                if nfault != k:
                    chk.violation(f"{tag}: {nfault} failing accesses observed, expected {k}", replay=rec)
                plan = export_plan(cb.dag)
                delivered = {}
                for e in cb.events:
                    if e["ev"] == "taskend":
                        delivered[e["op"]] = delivered.get(e["op"], 0) + e["n"]
                for o in plan["ops"]:
                    if delivered.get(o["name"], 0) != o["nt"]:
                        chk.violation(f"{tag}: operation {o['name']} delivered {delivered.get(o['name'], 0)} task-end notifications, "
                                      f"advertised {o['nt']}", replay=rec)
            else:
                if exc is None:
                    chk.violation(f"{tag}: compute finished although the task never succeeded (failure dropped)", replay=rec)
                elif not isinstance(exc, obs.InjectedIOError):
                    chk.violation(f"{tag}: raised {type(exc).__name__} instead of the task's own error", replay=rec)
                elif nfault != retries + 1:
                    chk.violation(f"{tag}: the submission made {nfault} attempts, expected retries+1 = {retries + 1}", replay=rec)
    chk.extra["end_to_end_fault_injection"] = runs
