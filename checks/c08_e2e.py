def run(chk):
    pass
