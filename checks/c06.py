"""C06 — tasks are idempotent and independent of order, repetition and placement.
P1: DagExec.tla with duplicate and zombie executions (MaxExec=2..3): OnlyGoodOverwrites, FinalGood.
P2/P4: generated programs (incl. cubed.random inputs) run under the adversarial sequential executor with shuffled task order,
    repeats placed immediately / after the operation ended / after downstream operations ran, and a share of executions
    shipped through cloudpickle into a fresh interpreter; judged by TaskTrace.tla (Focus=C06): every rewrite of a key carries
    the same bytes, and every array ends with the contents of a reference run (plain order, no repeats); results = NumPy."""
import os
import random
import sys

sys.path.insert(0, os.path.dirname(os.path.dirname(os.path.abspath(__file__))))
from harness.core import main  # noqa
from harness import programs  # noqa
from checks import dagexec_p1, seqexec  # noqa


def random_program(rng):
    if rng.random() < 0.3:      # 3-d block grids
        shp = rng.choice([[6, 6, 6], [4, 4, 6], [2, 6, 4]])
        ch = [rng.choice([1, 2, 3]), rng.choice([2, 3]), rng.choice([1, 2, 3])]
        inp = dict(shape=shp, chunks=ch, dtype="float64", seed=rng.randint(0, 99), src="random")
        steps = [dict(op="sum", args=[0], kw=dict(axis=0))]
        prog = dict(inputs=[inp], steps=steps, outs=[1], family="random-input")
        return prog, programs.Interp(__import__("numpy"), False).run(prog)
    r, c = rng.choice([(6, 6), (4, 12), (8, 4), (2, 12), (4, 9), (6, 12)])
    inp = dict(shape=[r, c], chunks=[rng.choice([1, 2, 3, r]), rng.choice([1, 2, 3])], dtype="float64", seed=rng.randint(0, 99), src="random")
    steps = rng.choice([
        [dict(op="sum", args=[0], kw=dict(axis=0))],
        [dict(op="rechunk", args=[0], kw=dict(chunks=[r, 1])), dict(op="max", args=[1], kw=dict(axis=1))],
        [dict(op="add", args=[0, 0]), dict(op="cumulative_sum", args=[1], kw=dict(axis=1))],
        [dict(op="negative", args=[0])],
    ])
    prog = dict(inputs=[inp], steps=steps, outs=[len(steps)], family="random-input")
    nv = programs.Interp(__import__("numpy"), False).run(prog)
    return prog, nv


def structured_reduction(rng):
    """Multi-round reductions with structured-dtype intermediates (mean / var / argmax), usually unfused."""
    import numpy as np
    r, c = rng.choice([(8, 8), (8, 4), (16, 2)])
    inp = dict(shape=[r, c], chunks=[rng.choice([1, 2]), rng.choice([1, 2])], dtype="float64", seed=rng.randint(0, 9), pattern="lin",
               src="asarray")
    op = rng.choice(["mean", "var", "argmax"])
    kw = dict(axis=rng.choice([0, 1])) if op == "argmax" else dict(axis=rng.choice([None, 0, 1]))
    prog = dict(inputs=[inp], steps=[dict(op=op, args=[0], kw=kw)], outs=[1], family="structured-reduction", optimize=False)
    return prog, programs.Interp(np, False).run(prog)


def recompute_then_store(rng):
    """y is computed once (result discarded), then the SAME lazy object is stored into a target: in-process re-execution and
    execution from the serialized task must fill the target identically (a handle cached in the process must not outlive the
    re-targeting done by store)."""
    import numpy as np
    r, c = rng.choice([(6, 4), (4, 6), (8, 4)])
    ch = [rng.choice([2, r]), rng.choice([2, c])]
    inp = dict(shape=[r, c], chunks=ch, dtype="int64", seed=rng.randint(0, 9), pattern="lin", src="asarray")
    steps = [dict(op="scalar_add", args=[0], kw=dict(k=3)), dict(op="precompute", args=[1]),
             dict(op="store_full", args=[2], kw=dict(tchunks=ch))]
    prog = dict(inputs=[inp], steps=steps, outs=[3], family="recompute-then-store", optimize=rng.random() < 0.5)
    return prog, programs.Interp(np, False).run(prog)


def shared_source(rng):
    """Two consumers of one IN-MEMORY input, one of them an order statistic along an axis held in a single chunk (its block is
    a view of the user's array): re-execution, reordering and in-process placement must leave the other consumer's chunks alone."""
    import numpy as np
    r, c = rng.choice([(6, 5), (8, 3)])
    inp = dict(shape=[r, c], chunks=[2, c], dtype="float64", seed=rng.randint(1, 9), pattern="lin", src="asarray")
    steps = [dict(op="nanmedian", args=[0], kw=dict(axis=1)), dict(op="negative", args=[0])]
    if rng.random() < 0.5:
        steps = steps[::-1]
    prog = dict(inputs=[inp], steps=steps, outs=[1, 2], family="shared-in-memory-source", optimize=rng.random() < 0.5)
    return prog, programs.Interp(np, False).run(prog)


def run(chk):
    chk.rule = ("generated programs + structured DAGs + cubed.random inputs; schedule = shuffled tasks, 30% repeats (now / after "
                "op end / after downstream ops / at the very end), pickle placement for ~10% of executions in quick; compared "
                "with a reference run of a second build (arrays matched by creation rank); non-trivial = at least one "
                "repeated execution; distinct = (program shape, schedule seed)")
    dagexec_p1.run(chk, {"dup"})
    rng = random.Random(chk.seed + 601)
    n = 30 if chk.tier == "quick" else 400
    per = 1 if chk.tier == "quick" else 3
    docs, metas, errors = [], [], []
    tries = 0
    forced = [(recompute_then_store(rng), pk) for pk in (0.0, 1.0)] + [(shared_source(rng), 0.0), (shared_source(rng), 0.0)]
    n += len(forced)
    while len(docs) < n and tries < n * 3:
        tries += 1
        m = tries % 5
        fpk = None
        if forced:
            (prog, nv), fpk = forced.pop(0)
        elif m == 0 and tries % 2 == 0:
            prog, nv = structured_reduction(rng)
        elif m == 0:
            prog, nv = random_program(rng)
        elif m in (1, 2):
            prog, nv = programs.structured(rng)
        elif m == 3:
            prog, nv = programs.layouts(rng)
            if prog.get("family") in ("store", "shard", "region"):
                continue    # user targets are compared by C11; here intermediates + results
        else:
            prog, nv = programs.gen_program(rng, max_steps=5)
        for _ in range(per):
            pk = 0.1 if (chk.tier == "thorough" or len(docs) % 6 == 0) else 0.0
            if fpk is not None:
                pk = fpk
            r = seqexec.run_adversarial(prog, nv, seed=rng.randint(0, 10 ** 6), order=rng.choice(["shuffle", "shuffle", "rev"]),
                                        repeats=0.3, pickle_p=pk, optimize=prog.get('optimize', rng.random() < 0.6), with_reference=True, recreate=True)
            if r is None:
                break
            if "doc" not in r:
                if "reference run failed" not in str(r.get("error")):     # a program that fails in plain order is C17's business
                    errors.append(dict(program=prog, error=r.get("error")))
                break
            docs.append(r["doc"])
            metas.append(r["meta"])
    verdicts = seqexec.validate(chk, "C06", docs)
    for k, (doc, meta) in enumerate(zip(docs, metas), 1):
        verdict, l = verdicts[k]
        chk.case(key=(str(meta["program"]["steps"]), meta["seed"]), nontrivial=meta["dup"] > 0,
                 sample=dict(family=meta["program"].get("family", "random"), steps=[s["op"] for s in meta["program"]["steps"]],
                             executions=meta["executions"], repeated=meta["dup"], pickled_share=meta["pickle_p"],
                             verdict=verdict) if k % 7 == 1 else None)
        chk.trace_validated()
        if verdict != "ok":
            ev = doc["events"][l - 1] if l - 1 < len(doc["events"]) else None
            bad = [(a["name"], a["final"], a["ref"]) for a in doc["plan"]["arrays"] if a["ref"] and a["final"] != a["ref"]]
            chk.violation(f"trace rejected by TaskTrace clause {verdict} at event {l}: "
                          f"{ {k2: v for k2, v in (ev or {}).items() if v not in ('', [], -1, False)} } differing arrays={bad[:3]}",
                          replay=dict(meta=meta, clause=verdict, at=l, event=ev))
        elif not meta["values_equal_numpy"]:
            chk.violation("result after adversarial schedule differs from NumPy", replay=dict(meta=meta))
    chk.extra["n_errors_in_execution"] = len(errors)
    chk.extra["errors_in_execution"] = errors[:5]
    for e in errors:
        chk.violation(f"a task failed under reordering/repetition/placement: {e['error']}", replay=e)
    chk.extra["pickled_runs"] = sum(1 for m in metas if m["pickle_p"] > 0)
    chk.assumptions += ["arrays of two builds of one program are matched by creation rank (names come from process-global counters)"]


if __name__ == "__main__":
    sys.exit(main(run, "C06"))
