"""Carries the observation wrapper (harness/obs.py) into worker processes spawned by cubed's `processes` executor.
Active only when CUBED_VERIF_TRACE is set; otherwise a no-op."""
import os
import sys

if os.environ.get("CUBED_VERIF_TRACE"):
    import importlib.abc
    import importlib.util

    class _Finder(importlib.abc.MetaPathFinder):
        def find_spec(self, name, path, target=None):
            if name != "cubed":
                return None
            sys.meta_path.remove(self)
            try:
                spec = importlib.util.find_spec(name)
            finally:
                pass
            if spec is None or spec.loader is None:
                return None
            loader = spec.loader
            orig_exec = loader.exec_module

            def exec_module(module):
                orig_exec(module)
                try:
                    here = os.path.dirname(os.path.dirname(os.path.dirname(os.path.abspath(__file__))))
                    if here not in sys.path:
                        sys.path.insert(0, here)
                    from harness import obs
                    obs.install()
                except Exception as e:  # never break the worker
                    sys.stderr.write(f"[verif] obs.install failed in worker: {e!r}\n")
            loader.exec_module = exec_module
            return spec

    sys.meta_path.insert(0, _Finder())
