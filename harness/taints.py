"""Narrow matchers for open known findings (mirrors of the taint predicates named in the TLA+ specs)."""


def PrefilledTargetResume(**f):
    """F13 (spec: DagExec.StaleByF13): store into a user target that held data in EVERY chunk before the computation;
    crash; resume -> the store operation looks complete and is skipped, stale chunks stay.  Matches only: the program
    stores into a pre-populated existing target, the run was resumed, and the wrong values are in that target."""
    return bool(f.get("resumed") and f.get("prefilled_target") and f.get("kind") == "values") or \
        bool(f.get("kind") == "history" and "prefilled-resume" in (f.get("taint") or []))   # PlanGraph.tla taint of the same pattern


def LegacyFuseStreamArg(**f):
    """F17: the legacy optimizer (simple_optimize_dag -> blockwise.fuse) feeds an ITERATOR of keys (a reduction's stream
    argument) to the predecessor's key function.  Matches only: legacy optimizer, failure inside the task with exactly
    that signature."""
    return bool(f.get("optimizer") == "simple" and f.get("kind") == "optimized-run-error"
                and "list_iterator" in str(f.get("error")) and "coords" in str(f.get("error")))


_MEM_TABLE = {
    # finding -> (program, func of the measured operation, compressor or None = any, data or None, optimize or None)
    "F11": ("unstack", "unstack", None, None, None),
    "F12": ("index-step", "__getitem__", None, None, None),
    "F16": ("roll", "roll", None, None, True),
    "F20": ("isfinite", "isfinite", "default", "random", None),
    "F21": ("take", "take", None, None, None),
    "F33": ("argmax", "argmax", None, None, True),
    "F34": ("rechunk-uneven", "rechunk", None, None, None),
    "F35": ("widen-sum-u8", "sum", None, None, True),
}


def MemUnderProjection(**f):
    """Open C03 findings: each is one named catalogue program + the operation that exceeds + (where it matters) the
    compressor / data / optimization setting.  Any other operation, or any other program, exceeding its projection is a
    violation."""
    for fid, (prog, func, comp, data, opt) in _MEM_TABLE.items():
        if f.get("program") == prog and f.get("func") == func and (comp is None or f.get("compressor") == comp) \
                and (data is None or f.get("data") == data) and (opt is None or f.get("optimize") == opt):
            return True
    return False


def RetargetShared(**f):
    """F8 (PlanGraph.tla taint "retarget-shared", computed by TLC for the replayed history)."""
    return f.get("kind") in ("history", "store-call") and "retarget-shared" in (f.get("taint") or [])


def RetargetTwice(**f):
    """F9 (PlanGraph.tla taint "retarget-twice")."""
    return f.get("kind") in ("history", "store-call") and "retarget-twice" in (f.get("taint") or [])


def NameCollision(**f):
    """F10 (PlanGraph.tla taint "name-collision")."""
    return f.get("kind") in ("history", "ship") and "name-collision" in (f.get("taint") or [])


def ZeroSizeMixedChunks(**f):
    """F31: element-wise combination of ZERO-SIZE arrays that are chunked differently along a non-empty axis.  unify_chunks asks
    for a rechunk, rechunk skips zero-size arrays ("no data to move") and returns the operand with its old chunks, so the
    blocks do not line up and the task fails with a broadcasting ValueError.  Matches only the probe family of C17 built from
    exactly that shape of program, failing after acceptance."""
    return bool(f.get("kind") == "api-program" and f.get("family") == "awkward-zero-mixed"
                and "FailedAfterAcceptance" in str(f.get("clause")))
