"""Narrow matchers for open known findings (mirrors of the taint predicates named in the TLA+ specs)."""
