"""Narrow matchers for open known findings (mirrors of the taint predicates named in the TLA+ specs)."""


def PrefilledTargetResume(**f):
    """F13 (spec: DagExec.StaleByF13): store into a user target that held data in EVERY chunk before the computation;
    crash; resume -> the store operation looks complete and is skipped, stale chunks stay.  Matches only: the program
    stores into a pre-populated existing target, the run was resumed, and the wrong values are in that target."""
    return bool(f.get("resumed") and f.get("prefilled_target") and f.get("kind") == "values")


def LegacyFuseStreamArg(**f):
    """F17: the legacy optimizer (simple_optimize_dag -> blockwise.fuse) feeds an ITERATOR of keys (a reduction's stream
    argument) to the predecessor's key function.  Matches only: legacy optimizer, failure inside the task with exactly
    that signature."""
    return bool(f.get("optimizer") == "simple" and f.get("kind") == "optimized-run-error"
                and "list_iterator" in str(f.get("error")) and "coords" in str(f.get("error")))
