"""Run cubed computations with the observation layer on, and turn the records into trace documents for the TLA+ monitors."""
import os
import shutil
import tempfile

from . import obs
from .execs import RecordingCallback, export_plan

SITE = os.path.join(os.path.dirname(os.path.abspath(__file__)), "site")


class Session:
    """One scratch area: trace dir + work dir.  Use as a context manager."""

    def __init__(self, wlat=None, wlat_random=False, faults=None, slow_key=None):
        self.dir = tempfile.mkdtemp(prefix="cv-")
        self.trace = os.path.join(self.dir, "trace")
        self.work = os.path.join(self.dir, "work")
        os.makedirs(self.trace)
        os.makedirs(self.work)
        self._old = {}
        self.env = {"CUBED_VERIF_TRACE": self.trace}
        if wlat:
            self.env["CUBED_VERIF_WLAT"] = str(wlat)
            if wlat_random:
                self.env["CUBED_VERIF_WLAT_RANDOM"] = "1"
        if slow_key:
            self.env["CUBED_VERIF_SLOW_KEY"] = f"{slow_key[0]}|{slow_key[1]}"
        if faults:
            import json
            fp = os.path.join(self.dir, "faults.json")
            json.dump(faults, open(fp, "w"))
            self.env["CUBED_VERIF_FAULTS"] = fp

    def __enter__(self):
        for k, v in self.env.items():
            self._old[k] = os.environ.get(k)
            os.environ[k] = v
        pp = os.environ.get("PYTHONPATH", "")
        self._old["PYTHONPATH"] = pp
        if SITE not in pp.split(os.pathsep):
            os.environ["PYTHONPATH"] = SITE + os.pathsep + pp if pp else SITE
        if self.env.get("CUBED_VERIF_WLAT") or self.env.get("CUBED_VERIF_FAULTS"):
            # latency / faults are read at install time in workers, at call time here
            obs._faults = None
        obs.install()
        _refresh_latency()
        return self

    def __exit__(self, *a):
        for k, v in self._old.items():
            if v is None:
                os.environ.pop(k, None)
            else:
                os.environ[k] = v
        obs._faults = None
        _refresh_latency()
        shutil.rmtree(self.dir, ignore_errors=True)

    def spec(self, **kw):
        import cubed
        kw.setdefault("allowed_mem", "500MB")
        kw.setdefault("reserved_mem", 0)
        return cubed.Spec(work_dir=self.work, **kw)

    def events(self, clear=True):
        return obs.read_events(self.trace, clear=clear)


_LAT = {"lat": 0.0, "rand": False}


def _refresh_latency():
    _LAT["lat"] = float(os.environ.get("CUBED_VERIF_WLAT", "0") or 0)
    _LAT["rand"] = os.environ.get("CUBED_VERIF_WLAT_RANDOM") == "1"


def path_index(plan):
    return {os.path.normpath(a["path"]): a["name"] for a in plan["arrays"] if a.get("path")}


def to_dagtrace(plan, events, total=-1):
    """Trace document for spec/DagTrace.tla from an exported plan + raw records of one computation."""
    idx = path_index(plan)
    out = []
    nid = 0
    timed = []
    for e in events:
        k = e["k"]
        if k.startswith("cb_"):
            timed.append((e["t0"], 1, e["pid"], e["seq"], dict(ev=k[3:], op=e.get("op", ""), arr="", key="", data=False, hit=False,
                                                               n=int(e.get("n", 0) or 0), id=0, h="")))
        elif k in ("get", "set"):
            ap, kind, chunk = obs.split_key(e["root"], e["key"])
            arr = idx.get(os.path.normpath(ap), "")
            nid += 1
            key = chunk if kind == "data" else os.path.basename(e["key"])
            base = dict(op="", arr=arr, key=key or "", data=(kind == "data"), hit=bool(e.get("hit", False)), n=0, id=nid,
                        h=e.get("h", ""))
            timed.append((e["t0"], 2, e["pid"], e["seq"], dict(ev=k + "call", **base)))
            timed.append((e["t1"], 0, e["pid"], e["seq"], dict(ev=k + "ret", **base)))
    timed.sort(key=lambda x: (x[0], x[1]))
    out = [t[4] for t in timed]
    p = dict(total=total, ops=[dict(name=o["name"], nt=o["nt"], nmap=o["nmap"], computed=o["computed"]) for o in plan["ops"]],
             arrays=[dict(name=a["name"], prod=a["prod"] or "", lazy=a["kind"] == "LazyZarrArray") for a in plan["arrays"]])
    return dict(plan=p, events=out)


def run_compute(arrays, sess, executor=None, callbacks=(), **kw):
    """cubed.compute(*arrays) with a recording callback; returns (results | exception, plan_export, raw_events)."""
    import cubed
    cb = RecordingCallback()
    sess.events(clear=True)
    exc = None
    res = None
    try:
        res = cubed.compute(*arrays, executor=executor, callbacks=[cb] + list(callbacks), **kw)
    except BaseException as e:  # noqa
        exc = e
    evs = sess.events(clear=True)
    plan = export_plan(cb.dag) if getattr(cb, "dag", None) is not None else None
    return res, exc, plan, evs, cb
