"""Observation layer (no hooks in /repo): class-level wrappers around zarr's LocalStore (get/set/delete) and
zarr.Array (__getitem__/__setitem__/set_basic_selection), activated when CUBED_VERIF_TRACE=<dir> is set.

Each process appends ndjson records to <dir>/ev-<pid>.ndjson.  A record has a per-process sequence number taken
under a lock; cross-process ordering uses only the monotonic intervals [t0, t1] (CLOCK_MONOTONIC is system-wide).
Optional environment:
  CUBED_VERIF_WLAT=<seconds>       latency injected inside LocalStore.set for data (non-metadata) keys
  CUBED_VERIF_WLAT_RANDOM=1        draw the latency per key (deterministically from the key) in [0, WLAT]
  CUBED_VERIF_FAULTS=<json file>   {"<substring of path/key>": {"op": "get"|"set", "first": k}}: the first k matching
                                    accesses raise OSError (counted across processes with O_EXCL marker files)
"""
import hashlib
import json
import os
import threading
import time

_lock = threading.Lock()
_seq = 0
_fh = None
_fh_pid = None
_fh_dir = None
CURRENT = {"task": None}      # set by the adversarial sequential executor: (op, idx, nexec)
_installed = False


def trace_dir():
    return os.environ.get("CUBED_VERIF_TRACE")


def emit(rec):
    global _seq, _fh, _fh_pid, _fh_dir
    d = trace_dir()
    if not d:
        return
    with _lock:
        _seq += 1
        pid = os.getpid()
        rec["pid"] = pid
        rec["seq"] = _seq
        rec["thr"] = threading.get_ident() % 100000
        if CURRENT["task"] is not None:
            rec["task"] = CURRENT["task"]
        if _fh is None or _fh_pid != pid or _fh_dir != d:
            if _fh is not None and _fh_pid == pid:
                try:
                    _fh.close()
                except Exception:
                    pass
            _fh = open(os.path.join(d, f"ev-{pid}.ndjson"), "a", buffering=1)
            _fh_pid = pid
            _fh_dir = d
        _fh.write(json.dumps(rec, default=str) + "\n")


def mark(k_, **kw):
    """Harness-side marker events (callbacks, task start/end...) go into the same per-process stream."""
    rec = {"k": k_, "t0": time.monotonic_ns()}
    rec.update(kw)
    rec["t1"] = rec["t0"]
    emit(rec)


class InjectedIOError(OSError):
    pass


class InjectedCrash(Exception):
    """Simulated crash of the whole computation, raised inside the k-th data set (before or after it takes effect)."""


CRASH = {"at": None, "n": 0, "when": "before"}


_faults = None


def _load_faults():
    global _faults
    if _faults is None:
        p = os.environ.get("CUBED_VERIF_FAULTS")
        _faults = json.load(open(p)) if p and os.path.exists(p) else {}
    return _faults


def _maybe_fault(op, full):
    faults = _load_faults()
    if not faults:
        return
    for pat, spec in faults.items():
        if spec["op"] == op and pat in full:
            d = trace_dir()
            # claim a slot 0..first-1 atomically across processes
            for k in range(spec["first"]):
                marker = os.path.join(d, "fault-" + hashlib.sha1((pat + op).encode()).hexdigest()[:10] + f"-{k}")
                try:
                    fd = os.open(marker, os.O_CREAT | os.O_EXCL | os.O_WRONLY)
                    os.close(fd)
                except FileExistsError:
                    continue
                emit({"k": "fault", "op": op, "path": full, "n": k, "t0": time.monotonic_ns(), "t1": time.monotonic_ns()})
                raise InjectedIOError(f"injected {op} fault #{k} on {full}")
            # count accesses beyond the faulting ones too
            emit({"k": "faultpass", "op": op, "path": full, "t0": time.monotonic_ns(), "t1": time.monotonic_ns()})
            return


import re as _re
_DATA_KEY = _re.compile(r"(^|/)c(/\d+)*$")


def _is_meta(key):
    """Everything that is not a zarr v3 chunk key (<prefix>/c/i/j, or <prefix>/c for 0-d) is metadata
    (zarr.json, and the v2 names zarr probes when opening: .zarray .zgroup .zattrs .zmetadata)."""
    return _DATA_KEY.search(key) is None


def install():
    """Idempotent.  Patches zarr.storage.LocalStore and zarr.Array at class level."""
    global _installed
    if _installed:
        return
    import asyncio
    import zarr
    from zarr.storage import LocalStore

    oget, oset, odel = LocalStore.get, LocalStore.set, LocalStore.delete

    async def get(self, key, prototype=None, byte_range=None):
        t0 = time.monotonic_ns()
        full = os.path.join(str(self.root), key)
        if not _is_meta(key):
            _maybe_fault("get", full)
        if prototype is None:
            r = await oget(self, key, byte_range=byte_range)
        else:
            r = await oget(self, key, prototype, byte_range)
        emit({"k": "get", "root": str(self.root), "key": key, "t0": t0, "t1": time.monotonic_ns(), "hit": r is not None,
              "meta": _is_meta(key)})
        return r

    async def set(self, key, value):
        t0 = time.monotonic_ns()
        full = os.path.join(str(self.root), key)
        meta = _is_meta(key)
        if not meta:
            _maybe_fault("set", full)
            slow = os.environ.get("CUBED_VERIF_SLOW_KEY")      # "<substring>|<seconds>": the FIRST write of a matching key is slow
            if slow:
                pat, secs = slow.rsplit("|", 1)
                if pat in full:
                    marker = os.path.join(trace_dir(), "slow-" + hashlib.sha1(pat.encode()).hexdigest()[:10])
                    try:
                        os.close(os.open(marker, os.O_CREAT | os.O_EXCL | os.O_WRONLY))
                        emit({"k": "slowwrite", "path": full, "t0": time.monotonic_ns(), "t1": time.monotonic_ns()})
                        await asyncio.sleep(float(secs))
                    except FileExistsError:
                        pass
            lat = float(os.environ.get("CUBED_VERIF_WLAT", "0") or 0)
            if lat:
                d = lat
                if os.environ.get("CUBED_VERIF_WLAT_RANDOM") == "1":
                    d = lat * (int(hashlib.sha1(full.encode()).hexdigest()[:4], 16) / 65535.0)
                await asyncio.sleep(d)
        if not meta and CRASH["at"] is not None:
            CRASH["n"] += 1
            if CRASH["n"] == CRASH["at"] and CRASH["when"] == "before":
                CRASH["at"] = None
                raise InjectedCrash(f"crash before data set #{CRASH['n']} ({full})")
        try:
            raw = value.to_bytes()
            h = hashlib.sha1(raw).hexdigest()[:12]
            n = len(raw)
        except Exception:
            h, n = "?", -1
        r = await oset(self, key, value)
        if not meta and CRASH["at"] is not None and CRASH["n"] == CRASH["at"] and CRASH["when"] == "after":
            CRASH["at"] = None
            raise InjectedCrash(f"crash after data set #{CRASH['n']} ({full})")
        emit({"k": "set", "root": str(self.root), "key": key, "t0": t0, "t1": time.monotonic_ns(), "n": n, "h": h, "meta": meta})
        return r

    async def delete(self, key):
        t0 = time.monotonic_ns()
        r = await odel(self, key)
        emit({"k": "del", "root": str(self.root), "key": key, "t0": t0, "t1": time.monotonic_ns(), "meta": _is_meta(key)})
        return r

    LocalStore.get, LocalStore.set, LocalStore.delete = get, set, delete

    # zarr.Array level: what cubed calls in the task's own thread
    A = zarr.Array
    osetitem, ogetitem, osbs = A.__setitem__, A.__getitem__, A.set_basic_selection

    def _region_shape(arr, sel):
        import numpy as np
        try:
            if not isinstance(sel, tuple):
                sel = (sel,)
            shp = []
            for s, n in zip(sel, arr.shape):
                if isinstance(s, slice):
                    shp.append(len(range(*s.indices(n))))
                elif isinstance(s, (int, np.integer)):
                    continue
                else:
                    return None
            shp += list(arr.shape[len(sel):])
            return shp
        except Exception:
            return None

    def _arr_path(arr):
        try:
            root = str(arr.store.root)
        except Exception:
            root = str(arr.store)
        return os.path.join(root, arr.path) if arr.path else root

    def _sel_json(sel):
        if not isinstance(sel, tuple):
            sel = (sel,)
        out = []
        for s in sel:
            if isinstance(s, slice):
                out.append([s.start, s.stop, s.step])
            else:
                out.append(str(s))
        return out

    def _dims(arr, sel):
        """Per-dimension facts of a basic selection: start, stop, length n, regular chunk size c (0 if rectilinear),
        chunk boundaries (rectilinear only).  None if the selection is not made of slices."""
        import numpy as np
        if not isinstance(sel, tuple):
            sel = (sel,)
        if sel == (Ellipsis,) or sel == ():
            sel = tuple(slice(None) for _ in arr.shape)
        if len(sel) != len(arr.shape) or not all(isinstance(x, slice) for x in sel):
            return None
        try:
            cs = list(getattr(arr, "shards", None) or arr.chunks)   # the unit of a store key is the shard, if any
            bounds = [[] for _ in cs]
        except NotImplementedError:
            sizes = arr.read_chunk_sizes
            cs = [0] * len(sizes)
            bounds = [[0] + [int(x) for x in np.cumsum(sz)] for sz in sizes]
        out = []
        for sl, n, c, b in zip(sel, arr.shape, cs, bounds):
            st, sp, step = sl.indices(n)
            if step != 1:
                return None
            out.append(dict(start=int(st), stop=int(sp), n=int(n), c=int(c), bounds=b))
        return out

    def _awrite(self, sel, value, fields=None):
        t0 = time.monotonic_ns()
        vs = [int(x) for x in getattr(value, "shape", ())]
        try:
            dims = _dims(self, sel)
        except Exception:
            dims = None
        emit({"k": "awrite", "arr": _arr_path(self), "sel": _sel_json(sel), "vshape": vs, "rshape": _region_shape(self, sel),
              "dims": dims, "vdtype": str(getattr(value, "dtype", type(value).__name__)), "adtype": str(self.dtype),
              "t0": t0, "t1": t0, "fields": str(fields)})

    def __setitem__(self, sel, value):
        _awrite(self, sel, value)
        return osetitem(self, sel, value)

    def set_basic_selection(self, selection, value, *a, **kw):
        _awrite(self, selection, value, kw.get("fields"))
        return osbs(self, selection, value, *a, **kw)

    def __getitem__(self, sel):
        t0 = time.monotonic_ns()
        r = ogetitem(self, sel)
        emit({"k": "aread", "arr": _arr_path(self), "sel": _sel_json(sel), "t0": t0, "t1": time.monotonic_ns()})
        return r

    A.__setitem__, A.__getitem__ = __setitem__, __getitem__
    # set_basic_selection is called by __setitem__ internally as well; wrap only the explicit-field path
    # (ZarrV3ArrayGroup.set_basic_selection delegates to __setitem__ of the field arrays), so nothing more to do.
    _installed = True


def read_events(d, clear=True):
    """All records written so far by all processes, as a list sorted by (t0, pid, seq) for display; the authoritative
    orders are per-process seq and non-overlapping intervals."""
    evs = []
    for fn in sorted(os.listdir(d)):
        if fn.startswith("ev-") and fn.endswith(".ndjson"):
            p = os.path.join(d, fn)
            with open(p) as f:
                for line in f:
                    line = line.strip()
                    if line:
                        try:
                            evs.append(json.loads(line))
                        except Exception:
                            pass
            if clear:
                # truncate rather than delete: other processes keep their handle open in append mode
                open(p, "w").close()
    evs.sort(key=lambda e: (e["t0"], e["pid"], e["seq"]))
    return evs


def split_key(root, key):
    """(array_path, kind, chunk) from a store record: kind 'meta' | 'data'."""
    full = os.path.join(root, key)
    if _is_meta(key):
        return os.path.dirname(full), "meta", None
    # zarr v3 default chunk key encoding: <prefix>/c/i/j  (0-d: <prefix>/c)
    parts = key.split("/")
    if "c" in parts:
        ci = len(parts) - 1 - parts[::-1].index("c")
        prefix = "/".join(parts[:ci])
        chunk = "/".join(parts[ci + 1:])
        return (os.path.join(root, prefix) if prefix else root), "data", chunk
    return os.path.dirname(full), "data", os.path.basename(full)
