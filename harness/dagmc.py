"""Generate MC modules (plan-as-constants) for spec/DagExec.tla from small Python plan descriptions."""


def tla_str(s):
    return '"' + s + '"'


def tla_set(xs):
    return "{" + ", ".join(xs) + "}"


def key(k):
    return f'<<"{k[0]}", {k[1]}>>'


def mc_module(name, plan):
    """plan: dict(ops=[(op, ntasks)], create='create', arrays={arr: prod}, lazy=[...],
                 reads={op: {t: [(arr, c), ...]}}, writes={op: {t: [(arr, c), ...]}})"""
    ops = [o for o, _ in plan["ops"]]
    nt = dict(plan["ops"])
    L = [f"---- MODULE {name} ----", "EXTENDS DagExec"]
    L.append(f"MCOps == {tla_set(tla_str(o) for o in ops)}")
    L.append(f"MCArrays == {tla_set(tla_str(a) for a in plan['arrays'])}")
    L.append(f"MCLazy == {tla_set(tla_str(a) for a in plan['lazy'])}")
    L.append("MCProd == [a \\in MCArrays |-> CASE " + " [] ".join(f'a = "{a}" -> "{p}"' for a, p in plan["arrays"].items()) + "]")
    L.append("MCNT == [o \\in MCOps |-> CASE " + " [] ".join(f'o = "{o}" -> {n}' for o, n in nt.items()) + "]")

    def per_task(tbl, o, seq):
        n = nt[o]
        parts = []
        for t in range(1, n + 1):
            ks = tbl.get(o, {}).get(t, [])
            body = ", ".join(key(k) for k in ks)
            parts.append(f"t = {t} -> " + (f"<<{body}>>" if seq else f"{{{body}}}"))
        return f"[t \\in 1..{n} |-> CASE " + " [] ".join(parts) + "]"
    L.append("MCReads == [o \\in MCOps |-> CASE " + " [] ".join(f'o = "{o}" -> ' + per_task(plan["reads"], o, False) for o in ops) + "]")
    L.append("MCWrites == [o \\in MCOps |-> CASE " + " [] ".join(f'o = "{o}" -> ' + per_task(plan["writes"], o, True) for o in ops) + "]")
    nkeys = {a: len({k for o in plan["writes"] for t in plan["writes"][o] for k in plan["writes"][o][t] if k[0] == a}) for a in plan["arrays"]}
    cps = {a: plan.get("cps", {}).get(a, 1) for a in plan["arrays"]}
    nch = {a: plan.get("nchunks", {}).get(a, nkeys[a] * cps[a]) for a in plan["arrays"]}
    L.append("MCNChunks == [a \\in MCArrays |-> CASE " + " [] ".join(f'a = "{a}" -> {n}' for a, n in nch.items()) + "]")
    L.append("MCCPS == [a \\in MCArrays |-> CASE " + " [] ".join(f'a = "{a}" -> {n}' for a, n in cps.items()) + "]")
    L.append("====")
    return "\n".join(L) + "\n"


def constants(sched="seq", maxexec=1, maxdup=2, maycrash=False, createfirst=True, deprule="settled", createmode="a", resumerule="all"):
    return dict(Ops="<-MCOps", Create='"create"', Arrays="<-MCArrays", Lazy="<-MCLazy", Prod="<-MCProd", NT="<-MCNT",
                Reads="<-MCReads", Writes="<-MCWrites", Sched=sched, MaxExec=maxexec, MaxDup=maxdup, MayCrash=maycrash,
                CreateFirst=createfirst, DepRule=deprule, CreateMode=createmode, ResumeRule=resumerule,
                NChunks="<-MCNChunks", CPS="<-MCCPS")


def chain(lazy_target=True):
    # create -> P (2 tasks -> A) -> S (2 tasks; task 1 writes 2 chunks of T, task 2 one)
    return dict(ops=[("create", 2 if lazy_target else 1), ("P", 2), ("S", 2)], arrays={"A": "P", "T": "S"},
                lazy=["A", "T"] if lazy_target else ["A"],
                reads={"S": {1: [("A", 1)], 2: [("A", 2)]}},
                writes={"P": {1: [("A", 1)], 2: [("A", 2)]}, "S": {1: [("T", 1), ("T", 2)], 2: [("T", 3)]}})


def diamond():
    return dict(ops=[("create", 4), ("P", 2), ("Q", 1), ("R", 1), ("S", 1)], arrays={"A": "P", "B": "Q", "C": "R", "D": "S"},
                lazy=["A", "B", "C", "D"],
                reads={"Q": {1: [("A", 1)]}, "R": {1: [("A", 2)]}, "S": {1: [("B", 1), ("C", 1)]}},
                writes={"P": {1: [("A", 1)], 2: [("A", 2)]}, "Q": {1: [("B", 1)]}, "R": {1: [("C", 1)]}, "S": {1: [("D", 1)]}})


def branches():
    # two independent chains, unequal task counts
    return dict(ops=[("create", 3), ("P", 2), ("Q", 1), ("S", 1)], arrays={"A": "P", "B": "Q", "D": "S"},
                lazy=["A", "B", "D"],
                reads={"S": {1: [("A", 1), ("A", 2)]}},
                writes={"P": {1: [("A", 1)], 2: [("A", 2)]}, "Q": {1: [("B", 1)]}, "S": {1: [("D", 1)]}})


def multiout():
    # one operation writes two arrays; the consumer reads both
    return dict(ops=[("create", 3), ("P", 2), ("S", 1)], arrays={"A": "P", "B": "P", "D": "S"}, lazy=["A", "B", "D"],
                reads={"S": {1: [("A", 1), ("B", 2)]}},
                writes={"P": {1: [("A", 1), ("B", 1)], 2: [("A", 2), ("B", 2)]}, "S": {1: [("D", 1)]}})


def rmw():
    # misaligned layout: both tasks of P write parts of chunk (A,1)
    return dict(ops=[("create", 1), ("P", 2)], arrays={"A": "P"}, lazy=["A"], reads={},
                writes={"P": {1: [("A", 1)], 2: [("A", 1)]}})


def sharded():
    # P stores into T, a SHARDED array with a ragged edge: 3 stored keys (shards) of 2 chunks each, 4 declared chunks
    # (two stored shards already count 4 chunks); S then reads T
    return dict(ops=[("create", 2), ("P", 3), ("S", 1)], arrays={"T": "P", "D": "S"}, lazy=["T", "D"],
                reads={"S": {1: [("T", 1), ("T", 2), ("T", 3)]}},
                writes={"P": {1: [("T", 1)], 2: [("T", 2)], 3: [("T", 3)]}, "S": {1: [("D", 1)]}},
                cps={"T": 2}, nchunks={"T": 4})
