"""Array programs as plain data, interpreted both by cubed and by NumPy (the property's oracle).

Program = dict(inputs=[{shape, chunks, dtype, seed, src}], steps=[{op, args:[refs], kw:{...}}], outs=[refs])
A ref is an int: index into the value list (inputs first, then one entry per step output; multi-output steps
(unstack) append several).  The same format is emitted by TLC from spec/ArrayProg.tla (then with `expect`).
"""
import itertools
import math
import random

import numpy as np

DECLINE = (ValueError, TypeError, NotImplementedError, IndexError)
POSITIONAL_ONLY = {"moveaxis": ("source", "destination"), "repeat": ("repeats",), "tile": ("repetitions",)}


def input_data(inp):
    shape = tuple(inp["shape"])
    n = int(np.prod(shape)) if shape else 1
    seed = inp.get("seed", 0)
    pat = inp.get("pattern", "lin")
    if pat == "lin":
        a = (np.arange(n, dtype=np.int64) * (2 * seed + 3) + seed) % 23 - 7
    elif pat == "iota":
        a = np.arange(n, dtype=np.int64) + seed
    elif pat == "sorted":
        a = np.sort((np.arange(n, dtype=np.int64) * 7 + seed) % 31)
    else:
        a = np.full(n, seed, dtype=np.int64)
    a = a.reshape(shape)
    dt = inp.get("dtype", "int64")
    if dt == "bool":
        return (a % 2 == 0)
    return a.astype(dt)


def _sl(s):
    """JSON slice spec -> python index object.  s: int | None('newaxis') | [start, stop, step] | {'ellipsis':1}"""
    if isinstance(s, list):
        return slice(*s)
    if s == "newaxis":
        return None
    if s == "ellipsis":
        return Ellipsis
    return s


def _idx(spec):
    return tuple(_sl(s) for s in spec)


class Interp:
    """Evaluates a program with module `xp` (cubed.array_api or numpy)."""

    def __init__(self, xp, is_cubed, spec=None):
        self.xp, self.is_cubed, self.spec = xp, is_cubed, spec

    def make_input(self, inp):
        if inp.get("src") == "random":
            import random as pyrandom
            import cubed
            import cubed.random
            pyrandom.seed(inp.get("seed", 0))
            spec = self.spec
            if spec is None:
                import tempfile
                spec = cubed.Spec(work_dir=tempfile.mkdtemp(prefix="np-oracle-"), allowed_mem="500MB", reserved_mem=0)
            r = cubed.random.random(tuple(inp["shape"]), chunks=tuple(inp["chunks"]), spec=spec)
            return r if self.is_cubed else r.compute()
        data = input_data(inp)
        if not self.is_cubed:
            return data
        import cubed
        chunks = tuple(inp["chunks"]) if inp.get("chunks") is not None else -1
        src = inp.get("src", "asarray")
        if src == "from_array":
            return cubed.from_array(data, chunks=chunks, spec=self.spec)
        return self.xp.asarray(data, chunks=chunks, spec=self.spec)

    def make_target(self, st, a0):
        """Create (once) the user-side Zarr target of a store step.  This is the USER's action, not cubed's: the laziness
        check calls it outside the observed window."""
        import os
        import tempfile
        import zarr
        key = id(st)
        cache = self.__dict__.setdefault("_targets_by_step", {})
        if key in cache:
            return cache[key]
        kw = st.get("kw", {})
        op = st["op"]
        tshape = tuple(kw["tshape"]) if op == "store_region" else tuple(a0.shape)
        region = tuple(slice(r[0], r[1]) for r in kw["region"]) if op == "store_region" else None
        d = tempfile.mkdtemp(prefix="target-", dir=self.spec.work_dir)
        extra = {}
        if kw.get("tshards"):
            extra["shards"] = tuple(kw["tshards"])
        z = zarr.create_array(d + "/t.zarr", shape=tshape, chunks=tuple(kw["tchunks"]), dtype=a0.dtype, fill_value=-1, **extra)
        if kw.get("prefill") is not None:
            z[...] = kw["prefill"]
        self.targets = getattr(self, "targets", []) + [z]
        unit = tuple(kw.get("tshards") or kw["tchunks"])
        if region is None:
            nk = int(np.prod([-(-n // u) for n, u in zip(tshape, unit)]))
        else:
            nk = int(np.prod([len(range(r.start // u, -(-r.stop // u))) for r, u in zip(region, unit)]))
        self.target_info = getattr(self, "target_info", {})
        self.target_info[os.path.normpath(d + "/t.zarr")] = dict(nkeys=nk)
        cache[key] = z
        return z

    def step(self, st, vals):
        xp = self.xp
        op = st["op"]
        a = [vals[r] for r in st.get("args", [])]
        kw = dict(st.get("kw", {}))
        for k in ("axis", "axes", "shape", "shift", "repetitions", "source", "destination"):
            if isinstance(kw.get(k), list):
                kw[k] = tuple(kw[k])
        if op == "pad":
            kw["pad_width"] = tuple(tuple(p) for p in kw["pad_width"])
            cv = kw.get("constant_values")
            if isinstance(cv, (list, tuple)):
                kw["constant_values"] = tuple(tuple(c) if isinstance(c, (list, tuple)) else c for c in cv)
            if self.is_cubed:
                import cubed
                return cubed.pad(a[0], **kw)
            return np.pad(a[0], **kw)
        if op == "index":
            return a[0][_idx(kw["idx"])]
        if op == "rechunk":
            if self.is_cubed:
                import cubed
                ch = tuple(kw["chunks"]) if isinstance(kw["chunks"], list) else kw["chunks"]
                extra = {k: kw[k] for k in ("min_mem", "allow_irregular") if k in kw}
                return cubed.rechunk(a[0], ch, **extra) if extra else a[0].rechunk(ch)
            return a[0]
        if op == "astype":
            return xp.astype(a[0], getattr(np, kw["dtype"]) if not self.is_cubed else getattr(xp, kw["dtype"]))
        if op in ("concat", "stack"):
            return getattr(xp, op)(a, **kw)
        if op == "unstack":
            return list(xp.unstack(a[0], **kw))
        if op == "scalar_mul":
            return xp.multiply(a[0], kw["k"]) if not self.is_cubed else a[0] * kw["k"]
        if op == "scalar_add":
            return a[0] + kw["k"]
        if op == "lincomb":      # 3*a - b : order sensitive
            return a[0] * 3 - a[1]
        if op == "tensordot":
            ax = kw["axes"]
            if isinstance(ax, tuple):
                ax = tuple(tuple(x) if isinstance(x, list) else x for x in ax)
            return xp.tensordot(a[0], a[1], axes=ax)
        if op == "mean_sq":
            return xp.mean(xp.astype(a[0], np.float64 if not self.is_cubed else xp.float64), **kw)
        if op == "take":
            ind = np.asarray(kw.pop("indices"))
            if self.is_cubed:
                return xp.take(a[0], xp.asarray(ind, spec=self.spec), **kw)
            return np.take(a[0], ind, **kw)
        if op == "map_overlap_sum":
            depth = kw["depth"]
            if self.is_cubed:
                import cubed
                def f(x):
                    return x + 0 * x
                # identity through overlap machinery with trimming
                dd = {k: (depth if k == 0 else 0) for k in range(a[0].ndim)}
                return cubed.map_overlap(_moving_sum_fn(depth, a[0].ndim), a[0], dtype=a[0].dtype, chunks=a[0].chunks,
                                         depth=dd, boundary=0, trim=False)
            return _moving_sum_np(a[0], depth)
        if op in ("store_region", "store_full"):
            tshape = tuple(kw["tshape"]) if op == "store_region" else tuple(np.asarray(a[0]).shape if not self.is_cubed else a[0].shape)
            region = tuple(slice(r[0], r[1]) for r in kw["region"]) if op == "store_region" else None
            if not self.is_cubed:
                if op == "store_full":
                    return a[0]
                out = np.full(tshape, -1, dtype=a[0].dtype)
                out[region] = a[0]
                return out
            import cubed
            z = self.make_target(st, a[0])
            return cubed.to_zarr(a[0], z, region=region, compute=False)
        if op == "precompute":
            # the user computes the array once (result discarded) and goes on using the same lazy object
            if self.is_cubed:
                a[0].compute()
            return a[0]
        if op == "qr":
            if self.is_cubed:
                import cubed.array_api.linalg as la
                q, r = la.qr(a[0])
                return [q, r]
            q, r = np.linalg.qr(a[0])
            return [q, r]
        if op == "svd":
            if self.is_cubed:
                import cubed.array_api.linalg as la
                u, s_, vh = la.svd(a[0], full_matrices=False)
                return [u, s_, vh]
            u, s_, vh = np.linalg.svd(a[0], full_matrices=False)
            return [u, s_, vh]
        if op == "map_blocks_neg":
            if self.is_cubed:
                import cubed
                return cubed.map_blocks(_neg, a[0], dtype=a[0].dtype)
            return -a[0]
        if op == "map_blocks_np_first":      # a non-cubed first argument: the helper array must get the operand's spec
            w = np.full((1,) * a[0].ndim, 3, dtype=np.int64)       # one block, broadcast against every block of the operand
            if self.is_cubed:
                import cubed
                return cubed.map_blocks(_mul, w, a[0], dtype=a[0].dtype, chunks=a[0].chunks)
            return w * a[0]
        if op == "sumsq_red":      # core `reduction` whose per-chunk `func` only MAPS (squares); combine_func does the reducing
            if self.is_cubed:
                from cubed.core.ops import reduction
                ax = kw.get("axis")
                return reduction(a[0], _sq_map, combine_func=_sum_comb, axis=ax, dtype=a[0].dtype, keepdims=kw.get("keepdims", False))
            return np.sum(a[0] * a[0], axis=kw.get("axis"), keepdims=kw.get("keepdims", False), dtype=a[0].dtype)
        if op == "split_sum":      # reduction with explicit split_every (cubed extension)
            se = kw.pop("split_every", None)
            if self.is_cubed:
                return xp.sum(a[0], split_every=se, **kw)
            return np.sum(a[0], **kw)
        if self.is_cubed and not hasattr(xp, op):
            import cubed
            import cubed.array_api.linalg as la
            f = getattr(cubed, op, None) or getattr(la, op)
        else:
            f = getattr(xp, op)
        # parameters that are positional-only in the array API (cubed enforces it, NumPy does not)
        extra = [kw.pop(k) for k in POSITIONAL_ONLY.get(op, ()) if k in kw]
        return f(*a, *extra, **kw)

    def run(self, prog):
        vals = [self.make_input(i) for i in prog["inputs"]]
        for st in prog["steps"]:
            r = self.step(st, vals)
            if isinstance(r, list):
                vals.extend(r)
            else:
                vals.append(r)
        return vals


def _neg(x):
    return -x


def _mul(x, y):
    return x * y


def _moving_sum_fn(depth, ndim):
    def f(x):
        # x has been padded by depth on axis 0; output trims the halo: y[i] = x[i-d..i+d] summed along axis 0
        d = depth
        n = x.shape[0] - 2 * d
        out = sum(x[k:k + n] for k in range(2 * d + 1))
        return out
    return f


def _moving_sum_np(a, d):
    pad = [(d, d)] + [(0, 0)] * (a.ndim - 1)
    p = np.pad(a, pad)
    n = a.shape[0]
    return sum(p[k:k + n] for k in range(2 * d + 1))


# ------------------------------------------------------------------------------------------- random generator

def all_chunkings(shape, rng, k=1):
    out = []
    for _ in range(k):
        out.append([max(1, rng.randint(1, max(1, s))) if s > 0 else 1 for s in shape])
    return out


def rand_shape(rng, ndim=None, maxel=60, exts=(1, 2, 3, 4, 5, 6, 7, 9)):
    ndim = rng.choice([1, 1, 2, 2, 2, 3, 3]) if ndim is None else ndim
    while True:
        shp = [rng.choice(exts) for _ in range(ndim)]
        if int(np.prod(shp)) <= maxel:
            return shp


def gen_program(rng, max_steps=5, allow=None, dtypes=("int64", "int64", "int32", "float64", "uint8", "bool"), ndim=None):
    """Random well-formed program (NumPy evaluates it).  Returns (prog, np_values)."""
    for _ in range(200):
        prog = _gen_once(rng, max_steps, allow, dtypes, ndim)
        try:
            with np.errstate(all="ignore"):
                vals = Interp(np, False).run(prog)
        except Exception:
            continue
        if any(np.asarray(vals[o]).size > 4000 for o in prog["outs"]):
            continue
        return prog, vals
    raise RuntimeError("could not generate a program")


UNARY = ["negative", "abs", "square", "positive"]
BINARY = ["add", "subtract", "multiply", "maximum", "minimum", "lincomb"]
CMP = ["less", "equal", "greater_equal", "not_equal"]
REDUCE = ["sum", "max", "min", "prod", "mean_sq", "any", "all", "split_sum", "sumsq_red"]


def _sq_map(a, axis=None, keepdims=None):
    return a * a


def _sum_comb(a, axis=None, keepdims=None):
    return np.sum(a, axis=axis, keepdims=keepdims, dtype=a.dtype)
ARGRED = ["argmax", "argmin"]


def _gen_once(rng, max_steps, allow, dtypes, ndim=None):
    ninp = rng.choice([1, 1, 2, 2, 3])
    base = rand_shape(rng, ndim=ndim)
    inputs = []
    for i in range(ninp):
        shp = list(base) if rng.random() < 0.7 else rand_shape(rng, ndim=len(base))
        if rng.random() < 0.15:   # broadcastable variant
            shp = [1 if rng.random() < 0.5 else s for s in base]
        dt = rng.choice(dtypes)
        inputs.append(dict(shape=shp, chunks=all_chunkings(shp, rng)[0], dtype=dt, seed=rng.randint(0, 9),
                           pattern=rng.choice(["lin", "lin", "iota", "sorted"]), src=rng.choice(["asarray", "asarray", "from_array"])))
    # shadow shapes via numpy
    npvals = [input_data(i) for i in inputs]
    steps = []
    nsteps = rng.randint(1, max_steps)
    interp = Interp(np, False)
    ops_pool = allow or ["unary", "binary", "binary", "cmp", "where", "reduce", "reduce", "argred", "cum", "reshape", "permute",
                         "expand", "squeeze", "flip", "roll", "repeat", "tile", "concat", "stack", "unstack", "broadcast_to",
                         "index", "index", "rechunk", "rechunk", "astype", "matmul", "tensordot", "outer", "tril", "take",
                         "moveaxis", "scalar", "diff", "clip", "map_blocks", "vecdot", "searchsorted", "pad", "isin",
                         "cumprod", "matrix_transpose", "overlap", "nan", "count_nonzero", "moveaxis", "pad"]
    tries = 0
    while len(steps) < nsteps and tries < 60:
        tries += 1
        kind = rng.choice(ops_pool)
        st = _gen_step(rng, kind, npvals)
        if st is None:
            continue
        try:
            with np.errstate(all="ignore"):
                r = interp.step(st, npvals)
        except Exception:
            continue
        rs = r if isinstance(r, list) else [r]
        if any(np.asarray(x).size > 3000 or np.asarray(x).ndim > 4 for x in rs):
            continue
        if any(np.asarray(x).dtype.kind not in "biuf" for x in rs):
            continue
        steps.append(st)
        npvals.extend(rs)
    nvals = len(npvals)
    k = rng.choice([1, 1, 1, 2, 3])
    cands = list(range(len(inputs), nvals)) or list(range(nvals))
    outs = sorted(set([nvals - 1] + [rng.choice(cands) for _ in range(k - 1)]))
    return dict(inputs=inputs, steps=steps, outs=outs)


def _pick(rng, vals, pred=lambda a: True, prefer_late=True):
    idx = [i for i, v in enumerate(vals) if pred(np.asarray(v))]
    if not idx:
        return None
    if prefer_late and rng.random() < 0.6:
        return idx[-1]
    return rng.choice(idx)


def _gen_step(rng, kind, vals):
    A = lambda i: np.asarray(vals[i])  # noqa
    if kind == "unary":
        i = _pick(rng, vals, lambda a: a.dtype.kind in "iuf")
        return None if i is None else dict(op=rng.choice(UNARY), args=[i])
    if kind in ("binary", "cmp"):
        i = _pick(rng, vals, lambda a: a.dtype.kind in "iuf")
        if i is None:
            return None
        j = _pick(rng, vals, lambda a: a.dtype.kind in "iuf" and _bcast_ok(a.shape, A(i).shape), prefer_late=False)
        if j is None:
            return None
        return dict(op=rng.choice(BINARY if kind == "binary" else CMP), args=[i, j])
    if kind == "where":
        c = _pick(rng, vals, lambda a: a.dtype.kind == "b")
        if c is None:
            return None
        i = _pick(rng, vals, lambda a: a.dtype.kind in "iuf" and _bcast_ok(a.shape, A(c).shape))
        j = _pick(rng, vals, lambda a: a.dtype.kind in "iuf" and _bcast_ok(a.shape, A(c).shape), prefer_late=False)
        if i is None or j is None or not _bcast_ok(A(i).shape, A(j).shape):
            return None
        return dict(op="where", args=[c, i, j])
    if kind in ("reduce", "argred", "count_nonzero"):
        i = _pick(rng, vals, lambda a: a.ndim >= 1 and a.size > 0)
        if i is None:
            return None
        nd = A(i).ndim
        if kind == "argred":
            if A(i).dtype.kind == "b":
                return None
            ax = rng.choice([None] + list(range(nd))) if nd == 1 else rng.randrange(-nd, nd)
            return dict(op=rng.choice(ARGRED), args=[i], kw=dict(axis=ax, keepdims=rng.random() < 0.3))
        axes = rng.choice([None] + list(range(nd)) + [list(c) for c in itertools.combinations(range(nd), 2)] + [-1])
        op = rng.choice(REDUCE) if kind == "reduce" else "count_nonzero"
        if op in ("sum", "prod", "mean_sq", "split_sum", "sumsq_red") and A(i).dtype.kind == "b":
            op = "any"
        if op in ("max", "min") and A(i).dtype.kind == "b":
            op = "all"
        if op == "prod" and A(i).size > 12:
            op = "sum"
        kw = dict(axis=axes, keepdims=rng.random() < 0.3)
        if op == "split_sum":
            kw["split_every"] = rng.choice([2, 3, 4, None])
        return dict(op=op, args=[i], kw=kw)
    if kind in ("cum", "cumprod"):
        i = _pick(rng, vals, lambda a: a.ndim >= 1 and a.dtype.kind in "iuf" and a.size > 0)
        if i is None:
            return None
        ax = rng.randrange(-A(i).ndim, A(i).ndim)
        if kind == "cumprod":
            if A(i).shape[ax] > 8:
                return None
            return dict(op="cumulative_prod", args=[i], kw=dict(axis=ax))
        return dict(op="cumulative_sum", args=[i], kw=dict(axis=ax))
    if kind == "reshape":
        i = _pick(rng, vals, lambda a: a.size > 0)
        if i is None:
            return None
        n = A(i).size
        facs = [f for f in range(1, n + 1) if n % f == 0]
        f1 = rng.choice(facs)
        shp = rng.choice([[n], [f1, n // f1], [-1, f1], [f1, -1]])
        if rng.random() < 0.2 and (n // f1) > 1:
            f2 = rng.choice([f for f in range(1, n // f1 + 1) if (n // f1) % f == 0])
            shp = [f1, f2, n // f1 // f2]
        return dict(op="reshape", args=[i], kw=dict(shape=shp))
    if kind == "permute":
        i = _pick(rng, vals, lambda a: a.ndim >= 2)
        if i is None:
            return None
        p = list(range(A(i).ndim))
        rng.shuffle(p)
        return dict(op="permute_dims", args=[i], kw=dict(axes=p))
    if kind == "matrix_transpose":
        i = _pick(rng, vals, lambda a: a.ndim >= 2)
        return None if i is None else dict(op="matrix_transpose", args=[i])
    if kind == "moveaxis":
        i = _pick(rng, vals, lambda a: a.ndim >= 2)
        if i is None:
            return None
        nd = A(i).ndim
        if nd >= 3 and rng.random() < 0.7:
            k = rng.randint(2, nd)
            return dict(op="moveaxis", args=[i], kw=dict(source=rng.sample(range(nd), k), destination=rng.sample(range(nd), k)))
        return dict(op="moveaxis", args=[i], kw=dict(source=rng.randrange(nd), destination=rng.randrange(-nd, nd)))
    if kind == "expand":
        i = _pick(rng, vals, lambda a: a.ndim <= 2)
        return None if i is None else dict(op="expand_dims", args=[i], kw=dict(axis=rng.randint(-A(i).ndim - 1, A(i).ndim)))
    if kind == "squeeze":
        i = _pick(rng, vals, lambda a: 1 in a.shape)
        if i is None:
            return None
        ax = [k for k, s in enumerate(A(i).shape) if s == 1]
        return dict(op="squeeze", args=[i], kw=dict(axis=rng.choice(ax)))
    if kind == "flip":
        i = _pick(rng, vals, lambda a: a.ndim >= 1)
        if i is None:
            return None
        nd = A(i).ndim
        return dict(op="flip", args=[i], kw=dict(axis=rng.choice([None] + list(range(-nd, nd)) + [list(range(nd))])))
    if kind == "roll":
        i = _pick(rng, vals, lambda a: a.ndim >= 1 and a.size > 0)
        if i is None:
            return None
        nd = A(i).ndim
        ax = rng.choice([None] + list(range(-nd, nd)))
        return dict(op="roll", args=[i], kw=dict(shift=rng.randint(-9, 9), axis=ax))
    if kind == "repeat":
        i = _pick(rng, vals, lambda a: a.ndim >= 1)
        if i is None:
            return None
        return dict(op="repeat", args=[i], kw=dict(repeats=(0 if rng.random() < 0.1 else rng.randint(1, 3)), axis=rng.randrange(-A(i).ndim, A(i).ndim)))
    if kind == "tile":
        i = _pick(rng, vals, lambda a: 1 <= a.ndim <= 2 and a.size <= 20)
        if i is None:
            return None
        return dict(op="tile", args=[i], kw=dict(repetitions=[rng.randint(1, 3) for _ in range(rng.randint(1, A(i).ndim + 1))]))
    if kind in ("concat", "stack"):
        i = _pick(rng, vals, lambda a: a.ndim >= 1)
        if i is None:
            return None
        nd = A(i).ndim
        ax = rng.randrange(nd) if kind == "concat" else rng.randint(0, nd)
        if kind == "concat":
            same = [j for j, v in enumerate(vals) if np.asarray(v).ndim == nd and
                    all(s == t for k, (s, t) in enumerate(zip(np.asarray(v).shape, A(i).shape)) if k != ax)]
        else:
            same = [j for j, v in enumerate(vals) if np.asarray(v).shape == A(i).shape]
        args = [i] + [rng.choice(same) for _ in range(rng.randint(1, 2))]
        return dict(op=kind, args=args, kw=dict(axis=ax))
    if kind == "unstack":
        i = _pick(rng, vals, lambda a: a.ndim >= 1 and 1 <= min(a.shape) and a.size <= 40)
        if i is None:
            return None
        ax = rng.randrange(A(i).ndim)
        if A(i).shape[ax] > 4:
            return None
        return dict(op="unstack", args=[i], kw=dict(axis=ax))
    if kind == "broadcast_to":
        i = _pick(rng, vals, lambda a: a.ndim <= 2 and a.size <= 20)
        if i is None:
            return None
        shp = [rng.randint(1, 3)] + [s if s != 1 or rng.random() < 0.5 else rng.randint(2, 3) for s in A(i).shape]
        return dict(op="broadcast_to", args=[i], kw=dict(shape=shp))
    if kind == "index":
        i = _pick(rng, vals, lambda a: a.ndim >= 1 and a.size > 0)
        if i is None:
            return None
        idx = []
        if rng.random() < 0.2:
            # idioms that keep every axis at full length: whole-axis reversal x[::-1], x[:, ::-1], x[::-1, ::-1], x[..., ::-1]
            rev = [rng.random() < 0.6 for _ in A(i).shape]
            if not any(rev):
                rev[rng.randrange(len(rev))] = True
            idx = [[None, None, -1] if f else [None, None, None] for f in rev]
            if rng.random() < 0.3 and len(idx) > 1 and rev[-1] and not any(rev[:-1]):
                idx = ["ellipsis", [None, None, -1]]
            elif rng.random() < 0.2:
                idx.insert(rng.randrange(len(idx) + 1), "newaxis")
            return dict(op="index", args=[i], kw=dict(idx=idx))
        for s in A(i).shape:
            r = rng.random()
            if r < 0.2:
                idx.append(rng.randrange(-s, s))
            elif r < 0.35:
                idx.append([None, None, None])
            else:
                start = rng.choice([None, rng.randrange(-s, s + 1)])
                stop = rng.choice([None, rng.randrange(-s, s + 2)])
                step = rng.choice([None, 1, 2, 3, -1, -2, 5])
                idx.append([start, stop, step])
        if rng.random() < 0.15:
            idx.insert(rng.randrange(len(idx) + 1), "newaxis")
        if rng.random() < 0.1 and len(idx) > 1:
            k = rng.randrange(len(idx))
            idx = idx[:k] + ["ellipsis"]
        return dict(op="index", args=[i], kw=dict(idx=idx))
    if kind == "rechunk":
        i = _pick(rng, vals, lambda a: a.ndim >= 1 and a.size > 0)
        if i is None:
            return None
        return dict(op="rechunk", args=[i], kw=dict(chunks=[rng.randint(1, s) for s in A(i).shape]))
    if kind == "astype":
        i = _pick(rng, vals)
        return None if i is None else dict(op="astype", args=[i], kw=dict(dtype=rng.choice(["int32", "float64", "int64", "uint8", "bool", "float32"])))
    if kind == "matmul":
        i = _pick(rng, vals, lambda a: a.ndim == 2 and a.dtype.kind in "iuf")
        if i is None:
            return None
        j = _pick(rng, vals, lambda a: a.ndim in (1, 2) and a.shape[0] == A(i).shape[1] and a.dtype.kind in "iuf", prefer_late=False)
        if j is None:
            return dict(op="matmul", args=[i, i]) if A(i).shape[0] == A(i).shape[1] else None
        return dict(op="matmul", args=[i, j])
    if kind == "tensordot":
        i = _pick(rng, vals, lambda a: a.ndim >= 1 and a.dtype.kind in "iuf")
        if i is None:
            return None
        j = _pick(rng, vals, lambda a: a.ndim >= 1 and a.dtype.kind in "iuf", prefer_late=False)
        ai, aj = A(i), A(j)
        pairs = [(p, q) for p in range(ai.ndim) for q in range(aj.ndim) if ai.shape[p] == aj.shape[q]]
        if not pairs:
            return None
        p, q = rng.choice(pairs)
        return dict(op="tensordot", args=[i, j], kw=dict(axes=[[p], [q]]))
    if kind == "vecdot":
        i = _pick(rng, vals, lambda a: a.ndim >= 1 and a.dtype.kind in "iuf")
        if i is None:
            return None
        j = _pick(rng, vals, lambda a: a.shape == A(i).shape and a.dtype.kind in "iuf", prefer_late=False)
        return None if j is None else dict(op="vecdot", args=[i, j], kw=dict(axis=rng.randrange(-A(i).ndim, 0)))
    if kind == "outer":
        i = _pick(rng, vals, lambda a: a.ndim == 1 and a.dtype.kind in "iuf")
        j = _pick(rng, vals, lambda a: a.ndim == 1 and a.dtype.kind in "iuf", prefer_late=False)
        return None if i is None or j is None else dict(op="outer", args=[i, j])
    if kind == "tril":
        i = _pick(rng, vals, lambda a: a.ndim == 2)
        return None if i is None else dict(op=rng.choice(["tril", "triu"]), args=[i], kw=dict(k=rng.randint(-2, 2)))
    if kind == "take":
        i = _pick(rng, vals, lambda a: a.ndim >= 1 and a.size > 0)
        if i is None:
            return None
        ax = rng.randrange(A(i).ndim)
        n = A(i).shape[ax]
        return dict(op="take", args=[i], kw=dict(indices=[rng.randrange(n) for _ in range(rng.randint(1, 4))], axis=ax))
    if kind == "scalar":
        i = _pick(rng, vals, lambda a: a.dtype.kind in "iuf")
        return None if i is None else dict(op=rng.choice(["scalar_mul", "scalar_add"]), args=[i], kw=dict(k=rng.randint(2, 5)))
    if kind == "diff":
        i = _pick(rng, vals, lambda a: a.ndim >= 1 and a.dtype.kind in "if" and a.size > 0)
        if i is None:
            return None
        return dict(op="diff", args=[i], kw=dict(axis=rng.randrange(A(i).ndim), n=rng.choice([1, 1, 2])))
    if kind == "clip":
        i = _pick(rng, vals, lambda a: a.dtype.kind in "if")
        return None if i is None else dict(op="clip", args=[i], kw=dict(min=rng.choice([None, -2, 0]), max=rng.choice([None, 3, 9])))
    if kind == "map_blocks":
        i = _pick(rng, vals, lambda a: a.dtype.kind in "if")
        return None if i is None else dict(op="map_blocks_neg", args=[i])
    if kind == "searchsorted":
        i = _pick(rng, vals, lambda a: a.ndim == 1 and a.dtype.kind in "if" and a.size > 0 and bool(np.all(np.diff(a) >= 0)))
        j = _pick(rng, vals, lambda a: a.ndim >= 1 and a.dtype.kind in "if" and a.size > 0, prefer_late=False)
        if i is None or j is None or A(i).dtype != A(j).dtype:
            return None
        return dict(op="searchsorted", args=[i, j], kw=dict(side=rng.choice(["left", "right"])))
    if kind == "pad":
        i = _pick(rng, vals, lambda a: a.ndim >= 1 and a.size > 0)
        if i is None:
            return None
        nd = A(i).ndim
        ax = rng.randrange(nd)
        pw = [[0, 0]] * nd
        pw = [list(p) for p in pw]
        pw[ax] = [rng.randint(0, 2), rng.randint(0, 2)]
        kw = dict(pad_width=pw, mode="constant")
        r = rng.random()
        if r < 0.3:
            kw["constant_values"] = rng.randint(-3, 3)
        elif r < 0.6:
            kw["constant_values"] = [rng.randint(-3, 3), rng.randint(4, 9)]
        elif r < 0.75:
            kw["constant_values"] = [[rng.randint(-3, 3), rng.randint(4, 9)] for _ in range(nd)]
        return dict(op="pad", args=[i], kw=kw)
    if kind == "isin":
        i = _pick(rng, vals, lambda a: a.dtype.kind in "i" and a.ndim >= 1)
        j = _pick(rng, vals, lambda a: a.dtype.kind in "i" and a.ndim >= 1 and a.size <= 30, prefer_late=False)
        return None if i is None or j is None else dict(op="isin", args=[i, j], kw=dict(invert=rng.random() < 0.3))
    if kind == "overlap":
        i = _pick(rng, vals, lambda a: a.ndim >= 1 and a.dtype.kind in "if" and a.shape[0] >= 3)
        return None if i is None else dict(op="map_overlap_sum", args=[i], kw=dict(depth=1))
    if kind == "nan":
        i = _pick(rng, vals, lambda a: a.ndim >= 1 and a.dtype.kind == "f" and a.size > 0)
        if i is None:
            return None
        op = rng.choice(["nansum", "nanmax", "nanmin", "nanmean", "nanprod", "nanstd", "nanvar", "nanmedian", "nanargmax", "nanargmin"])
        axis = rng.choice([None] + list(range(A(i).ndim)))
        if op in ("nanmedian", "nanargmax", "nanargmin") and (axis is None and (op == "nanmedian" or A(i).ndim > 1)):
            axis = rng.randrange(A(i).ndim)
        if op == "nanprod" and A(i).size > 12:
            op = "nansum"
        return dict(op=op, args=[i], kw=dict(axis=axis))
    return None


def _bcast_ok(s1, s2):
    try:
        np.broadcast_shapes(tuple(s1), tuple(s2))
        return True
    except ValueError:
        return False


def same(a, b):
    """Value equality the way C01 states it: same shape, same elements (exact for ints/bools; allclose for floats)."""
    a, b = np.asarray(a), np.asarray(b)
    if a.shape != b.shape:
        return False
    if a.dtype.kind in "fc" or b.dtype.kind in "fc":
        return bool(np.allclose(a, b, rtol=1e-9, atol=1e-12, equal_nan=True))
    return bool(np.array_equal(a, b))


# ------------------------------------------------------------------------------------------- structured DAG shapes

def structured(rng):
    """Hand-shaped DAG families the random generator rarely produces: repeated arguments f(x, x), diamonds, operands at
    mixed depths, shared intermediates requested together with their consumers, reductions feeding element-wise ops."""
    r, c = rng.choice([(4, 6), (6, 4), (5, 5), (8, 3), (6, 6)])
    ch = [rng.randint(1, r), rng.randint(1, c)]
    inp = dict(shape=[r, c], chunks=ch, dtype=rng.choice(["int64", "float64"]), seed=rng.randint(0, 9), pattern="lin", src="asarray")
    inp2 = dict(shape=[r, c], chunks=[rng.randint(1, r), rng.randint(1, c)], dtype=inp["dtype"], seed=rng.randint(0, 9),
                pattern="iota", src="asarray")
    kind = rng.choice(["rep-deep", "diamond", "mixed", "shared", "rep3", "red-elem", "chain-rechunk", "two-branches"])
    if kind == "rep-deep":      # x*x - sum(x, axis, keepdims): repeated input + a deeper input
        ax = rng.choice([0, 1])
        steps = [dict(op="multiply", args=[0, 0]), dict(op="sum", args=[0], kw=dict(axis=ax, keepdims=True)),
                 dict(op="subtract", args=[1, 2])]
        inputs, outs = [inp], [3]
    elif kind == "diamond":
        steps = [dict(op="negative", args=[0]), dict(op="scalar_add", args=[0], kw=dict(k=1)), dict(op="lincomb", args=[1, 2])]
        inputs, outs = [inp], [3]
    elif kind == "mixed":       # operands at different depths
        steps = [dict(op="add", args=[0, 0]), dict(op="scalar_mul", args=[0], kw=dict(k=2)),
                 dict(op="rechunk", args=[2], kw=dict(chunks=[r, 1])), dict(op="negative", args=[3]),
                 dict(op="lincomb", args=[1, 4])]
        inputs, outs = [inp], [5]
    elif kind == "shared":      # intermediate requested together with its consumers
        steps = [dict(op="add", args=[0, 1]), dict(op="negative", args=[2]), dict(op="square", args=[2]),
                 dict(op="sum", args=[3], kw=dict(axis=0))]
        inputs, outs = [inp, inp2], rng.choice([[2, 4, 5], [3, 5], [2, 5], [4, 5]])
    elif kind == "rep3":        # f(x, x, y) with y a deep chain
        steps = [dict(op="negative", args=[1]), dict(op="rechunk", args=[2], kw=dict(chunks=ch)),
                 dict(op="multiply", args=[0, 0]), dict(op="lincomb", args=[4, 3])]
        inputs, outs = [inp, inp2], [5]
    elif kind == "red-elem":
        steps = [dict(op="max", args=[0], kw=dict(axis=1, keepdims=True)), dict(op="subtract", args=[0, 1]),
                 dict(op="cumulative_sum", args=[2], kw=dict(axis=0))]
        inputs, outs = [inp], [3]
    elif kind == "chain-rechunk":
        steps = [dict(op="scalar_add", args=[0], kw=dict(k=3)), dict(op="rechunk", args=[1], kw=dict(chunks=[1, c])),
                 dict(op="rechunk", args=[2], kw=dict(chunks=[r, 1])), dict(op="sum", args=[3], kw=dict(axis=1))]
        inputs, outs = [inp], [4]
    else:                       # two independent branches of unequal length, computed together
        steps = [dict(op="negative", args=[0]), dict(op="rechunk", args=[1], kw=dict(chunks=[rng.randint(1, r), rng.randint(1, c)])),
                 dict(op="sum", args=[3], kw=dict(axis=0)), dict(op="scalar_mul", args=[1], kw=dict(k=2))]
        inputs, outs = [inp, inp2], [4, 5]
    prog = dict(inputs=inputs, steps=steps, outs=outs, family=kind)
    with np.errstate(all="ignore"):
        nv = Interp(np, False).run(prog)
    return prog, nv


# ------------------------------------------------------------------------------------------- storage-layout families

def layouts(rng):
    """Programs that stress who-writes-which-chunk: multi-stage rechunks under tight budgets (regular and irregular
    intermediate grids), stores into existing arrays with equal / finer / coarser / coprime chunks, sharded targets,
    region stores at aligned offsets, multi-output operators.  May carry its own Spec settings (prog['spec'])."""
    kind = rng.choice(["rechunk", "rechunk", "rechunk", "store", "store", "shard", "shard", "region", "unstack"])
    if kind == "rechunk":
        # prefer geometries/budgets for which cubed's planner needs several copy operations (cheap to find: no execution)
        best = None
        for _ in range(25):
            cand = _rechunk_candidate(rng)
            n = _count_copy_ops(cand)
            if best is None or n > best[0]:
                best = (n, cand)
            if n >= 3 or (n >= 2 and rng.random() < 0.5):
                break
        prog = best[1]
        prog["copy_ops"] = best[0]
        with np.errstate(all="ignore"):
            nv = Interp(np, False).run(prog)
        return prog, nv
    if kind == "rechunk-never":
        r, c = rng.choice([(60, 60), (120, 120), (96, 40), (50, 70), (120, 36), (37, 53)])
        sc = [rng.choice([1, 2, 3, 5, 8, 13, r, max(1, r - rng.randint(1, 20))]), rng.choice([1, 2, 4, 7, c, max(1, c - rng.randint(1, 20))])]
        tc = [rng.choice([1, 3, 4, 6, 24, r, max(1, r - rng.randint(1, 20))]), rng.choice([2, 5, 8, 10, c, max(1, c - rng.randint(1, 20))])]
        sc = [min(sc[0], r), min(sc[1], c)]
        tc = [min(tc[0], r), min(tc[1], c)]
        def nblocks(ch):
            return -(-r // ch[0]) * -(-c // ch[1])
        while nblocks(sc) > 300:
            sc = [min(r, sc[0] * 2), min(c, sc[1] * 2)]
        while nblocks(tc) > 300:
            tc = [min(r, tc[0] * 2), min(c, tc[1] * 2)]
        big = max(sc[0] * sc[1], tc[0] * tc[1]) * 8
        allowed = int(big * rng.choice([5.5, 6, 8, 12, 30]))
        inp = dict(shape=[r, c], chunks=sc, dtype="float64", seed=rng.randint(0, 9), pattern="lin", src="asarray")
        kw = dict(chunks=tc, allow_irregular=rng.random() < 0.5)
        if rng.random() < 0.3:
            kw["min_mem"] = rng.choice([8, 64, big // 4])
        prog = dict(inputs=[inp], steps=[dict(op="rechunk", args=[0], kw=kw)], outs=[1], spec=dict(allowed_mem=allowed, reserved_mem=0),
                    family="rechunk")
    elif kind in ("store", "shard"):
        r, c = rng.choice([(24, 24), (32, 32), (30, 18)])
        sc = [rng.choice([2, 3, 4, 6, 8, r]), rng.choice([2, 3, 4, 6, c])]
        tc = [rng.choice([2, 3, 4, 5, 8, 12, r]), rng.choice([2, 3, 4, 7, 9, c])]
        kw = dict(tchunks=tc)
        spec = None
        if kind == "shard":
            tc = [rng.choice([2, 4]), rng.choice([2, 4])]
            sh = [tc[0] * rng.choice([1, 2, 4]), tc[1] * rng.choice([2, 4])]
            sh = [min(sh[0], r), min(sh[1], c)]
            if r % tc[0] or c % tc[1] or sh[0] % tc[0] or sh[1] % tc[1]:
                sh = [tc[0] * 2, tc[1] * 2]
            kw = dict(tchunks=tc, tshards=sh)
            spec = dict(allowed_mem=int(rng.choice([6000, 12000, 20000, 10 ** 8])), reserved_mem=0)
        inp = dict(shape=[r, c], chunks=sc, dtype="int64", seed=rng.randint(0, 9), pattern="lin", src="asarray")
        steps = [dict(op="scalar_add", args=[0], kw=dict(k=1)), dict(op="store_full", args=[1], kw=kw)]
        prog = dict(inputs=[inp], steps=steps, outs=[2], family=kind)
        if spec:
            prog["spec"] = spec
    elif kind == "region":
        steps, inp = region_store_steps(rng)
        prog = dict(inputs=[inp], steps=steps, outs=[2], family="region")
    else:
        c = rng.choice([4, 6, 9])
        inp = dict(shape=[3, c], chunks=[rng.choice([1, 2, 3]), rng.choice([2, 3])], dtype="int64", seed=1, pattern="lin", src="asarray")
        steps = [dict(op="unstack", args=[0], kw=dict(axis=0)), dict(op="lincomb", args=[1, 3])]
        prog = dict(inputs=[inp], steps=steps, outs=[4, 2], family="unstack")
    with np.errstate(all="ignore"):
        nv = Interp(np, False).run(prog)
    return prog, nv


def _rechunk_candidate(rng):
    r, c = rng.choice([(60, 60), (120, 120), (96, 40), (50, 70), (120, 36), (37, 53)])
    sc = [rng.choice([1, 2, 3, 5, 8, 13, r, max(1, r - rng.randint(1, 20))]), rng.choice([1, 2, 4, 7, c, max(1, c - rng.randint(1, 20))])]
    tc = [rng.choice([1, 3, 4, 6, 24, r, max(1, r - rng.randint(1, 20))]), rng.choice([2, 5, 8, 10, c, max(1, c - rng.randint(1, 20))])]
    if rng.random() < 0.6:     # transpose-like: tall-thin -> short-wide (tiny element-wise minimum => several stages)
        sc = [rng.randint(max(1, r // 2), r), rng.choice([1, 2, 3, 4])]
        tc = [rng.choice([1, 2, 3, 4]), rng.randint(max(1, c // 2), c)]
        if rng.random() < 0.5:
            sc, tc = tc, sc
    sc = [min(sc[0], r), min(sc[1], c)]
    tc = [min(tc[0], r), min(tc[1], c)]

    def nblocks(ch):
        return -(-r // ch[0]) * -(-c // ch[1])
    while nblocks(sc) > 300:
        sc = [min(r, sc[0] * 2), min(c, sc[1] * 2)]
    while nblocks(tc) > 300:
        tc = [min(r, tc[0] * 2), min(c, tc[1] * 2)]
    big = max(sc[0] * sc[1], tc[0] * tc[1]) * 8
    allowed = int(big * rng.choice([5.5, 6, 8, 12, 30]))
    inp = dict(shape=[r, c], chunks=sc, dtype="float64", seed=rng.randint(0, 9), pattern="lin", src="asarray")
    kw = dict(chunks=tc, allow_irregular=rng.random() < 0.5)
    if rng.random() < 0.3:
        kw["min_mem"] = rng.choice([8, 64, big // 4])
    return dict(inputs=[inp], steps=[dict(op="rechunk", args=[0], kw=kw)], outs=[1], spec=dict(allowed_mem=allowed, reserved_mem=0),
                family="rechunk")


def _count_copy_ops(prog):
    import tempfile
    import cubed
    import cubed.array_api as xp
    from cubed.core.ops import _rechunk_plan
    inp = prog["inputs"][0]
    kw = prog["steps"][0]["kw"]
    try:
        spec = cubed.Spec(work_dir=tempfile.gettempdir(), **prog["spec"])
        x = xp.empty(tuple(inp["shape"]), dtype=xp.float64, chunks=tuple(inp["chunks"]), spec=spec)
        return len(list(_rechunk_plan(x, tuple(kw["chunks"]), min_mem=kw.get("min_mem"), allow_irregular=kw.get("allow_irregular", True))))
    except Exception:
        return 0


def region_store_steps(rng):
    """A region store at a chunk-aligned offset; the region may end at a ragged edge of the target (target extent not a
    multiple of the chunk size) or strictly inside it."""
    cr, cc = rng.choice([1, 2, 3]), rng.choice([2, 3, 4])
    r = cr * rng.randint(1, 3) + rng.choice([0, rng.randint(0, cr - 1)])
    c = cc * rng.randint(1, 2) + rng.choice([0, rng.randint(1, cc - 1)])
    r0, c0 = cr * rng.randint(0, 3), cc * rng.randint(0, 2)
    # a region whose stop is not chunk-aligned must end at the target's edge
    tr = r0 + r + (cr * rng.randint(0, 2) if r % cr == 0 else 0)
    tcn = c0 + c + (cc * rng.randint(0, 2) if c % cc == 0 else 0)
    inp = dict(shape=[r, c], chunks=[cr, cc], dtype="int64", seed=rng.randint(0, 9), pattern="lin", src="asarray")
    steps = [dict(op="negative", args=[0]),
             dict(op="store_region", args=[1], kw=dict(tshape=[tr, tcn], tchunks=[cr, cc], region=[[r0, r0 + r], [c0, c0 + c]]))]
    return steps, inp
