"""MC modules (DAG shapes as constants) for spec/Optimize.tla."""


def q(s):
    return '"' + s + '"'


def tset(xs):
    return "{" + ", ".join(xs) + "}"


def mc_module(name, shape):
    """shape: dict(ops=[(op, [src arrays...], fusP, fusS)], prod={arr: op}, inputs=[...], req=[[...], ...])  ops in topo order"""
    ops = [o[0] for o in shape["ops"]]
    arrs = list(shape["inputs"]) + list(shape["prod"])
    L = [f"---- MODULE {name} ----", "EXTENDS Optimize"]
    L.append(f"MCOps == {tset(q(o) for o in ops)}")
    L.append(f"MCArr == {tset(q(a) for a in arrs)}")
    L.append(f"MCInputs == {tset(q(a) for a in shape['inputs'])}")
    L.append("MCProdOf == [a \\in MCArr \\ MCInputs |-> CASE " + " [] ".join(f"a = {q(a)} -> {q(p)}" for a, p in shape["prod"].items()) + "]")
    L.append("MCSrc0 == [o \\in MCOps |-> CASE " + " [] ".join(
        f"o = {q(o)} -> <<" + ", ".join(q(a) for a in src) + ">>" for o, src, _, _ in shape["ops"]) + "]")
    L.append("MCTopo == <<" + ", ".join(q(o) for o in ops) + ">>")
    L.append("MCFusP == [o \\in MCOps |-> CASE " + " [] ".join(f"o = {q(o)} -> {'TRUE' if fp else 'FALSE'}" for o, _, fp, _ in shape["ops"]) + "]")
    L.append("MCFusS == [o \\in MCOps |-> CASE " + " [] ".join(f"o = {q(o)} -> {'TRUE' if fs else 'FALSE'}" for o, _, _, fs in shape["ops"]) + "]")
    L.append("MCReq == " + tset(tset(q(a) for a in r) for r in shape["req"]))
    L.append("====")
    return "\n".join(L) + "\n"


def constants(pmax=3, mayforce=True, checkrequested=True, memguard=True, fusedproj="max", validatefirst=True):
    return dict(Ops="<-MCOps", Arr="<-MCArr", Inputs="<-MCInputs", ProdOf="<-MCProdOf", Src0="<-MCSrc0", Topo="<-MCTopo",
                FusP="<-MCFusP", FusS="<-MCFusS", PMax=pmax, ReqChoices="<-MCReq", MayForce=mayforce,
                CheckRequested=checkrequested, MemGuard=memguard, FusedProj=fusedproj, ValidateFirst=validatefirst)


SHAPES = {
    # x -> A -> B -> C   (chain)
    "chain3": dict(inputs=["x"], prod={"A": "f", "B": "g", "C": "h"},
                   ops=[("f", ["x"], True, True), ("g", ["A"], True, True), ("h", ["B"], True, True)],
                   req=[["C"], ["B", "C"], ["A", "C"]]),
    # diamond: A=f(x); B=g(A); C=h(A); D=k(B,C)
    "diamond": dict(inputs=["x"], prod={"A": "f", "B": "g", "C": "h", "D": "k"},
                    ops=[("f", ["x"], True, True), ("g", ["A"], True, True), ("h", ["A"], True, True), ("k", ["B", "C"], True, True)],
                    req=[["D"], ["D", "B"]]),
    # repeated argument: A=f(x); B=g(A, A)
    "rep": dict(inputs=["x"], prod={"A": "f", "B": "g"},
                ops=[("f", ["x"], True, True), ("g", ["A", "A"], True, True)], req=[["B"], ["A", "B"]]),
    # mixed levels: A=f(x); B=g(A); C=k(A2?..): C = k(B, y) with y input; D = m(C, A') where A'=f2(y)
    "mixed": dict(inputs=["x", "y"], prod={"A": "f", "B": "g", "E": "f2", "D": "m"},
                  ops=[("f", ["x"], True, True), ("g", ["A"], True, True), ("f2", ["y"], True, True), ("m", ["B", "E", "y"], True, True)],
                  req=[["D"], ["D", "E"]]),
    # multi-output predecessor: (P, Q) = u(x); R = r(P); S = s(Q, R)
    "multiout": dict(inputs=["x"], prod={"P": "u", "Q": "u", "R": "r", "S": "s"},
                     ops=[("u", ["x"], True, True), ("r", ["P"], True, True), ("s", ["Q", "R"], True, True)], req=[["S"]]),
    # a rechunk in the middle (not fusable either way) and a store at the end (not fusable with successors)
    "rechunk": dict(inputs=["x"], prod={"A": "f", "B": "rc", "C": "h"},
                    ops=[("f", ["x"], True, True), ("rc", ["A"], False, False), ("h", ["B"], True, False)], req=[["C"]]),
}
