"""Common plumbing of all checks: evidence, known findings, replay files, verdict."""
import json
import os
import sys
import time
import traceback

ROOT = os.path.dirname(os.path.dirname(os.path.abspath(__file__)))
# A seeded-change trial (CUBED_REPO=<scratch worktree>) must never overwrite the evidence of the real tree.
_SCRATCH = os.environ.get("CUBED_REPO") and os.path.join(os.environ.get("TMPDIR", "/tmp"), "verif-seedrun")
EVID = os.path.join(_SCRATCH or ROOT, "evidence")
REPLAY = os.path.join(_SCRATCH or ROOT, "replays")
FINDINGS_FILE = os.path.join(ROOT, "known_findings.json")


class MachineryError(Exception):
    """The checking machinery itself is wrong (spec disagrees with oracle, TLC failed to run...).  exit 2."""


def load_findings():
    if not os.path.exists(FINDINGS_FILE):
        return []
    return json.load(open(FINDINGS_FILE))["findings"]


class Check:
    """Accumulates what one run of one property's check covered and decides the exit status."""

    def __init__(self, pid, tier, seed):
        self.pid, self.tier, self.seed = pid, tier, seed
        self.t0 = time.time()
        self.states = 0
        self.transitions = 0
        self.traces = 0
        self.evaluations = 0
        self.distinct = set()
        self.samples = []
        self.violations = []         # (what, replay_path)
        self.known = {}              # finding id -> count
        self.extra = {}
        self.tlc_jobs = []
        self.assumptions = []
        self.rule = ""
        self.exhaustive = False
        self.findings = [f for f in load_findings() if pid in f["property"].split(",")]
        self.drift = []
        self._budget = None

    # ---- time budget
    def set_budget(self, seconds):
        self._budget = seconds

    def time_left(self):
        return 1e9 if self._budget is None else self._budget - (time.time() - self.t0)

    # ---- TLC accounting
    def add_tlc(self, name, res, expect_violation=None):
        """Record a TLC job.  expect_violation: name of the invariant that MUST be violated (vacuity switch)."""
        rec = dict(job=name, **res.as_dict())
        if res.coverage:
            rec["actions"] = {k: v[0] for k, v in res.coverage.items()}
        self.tlc_jobs.append(rec)
        self.states += res.distinct
        self.transitions += res.generated
        if res.error:
            raise MachineryError(f"TLC job {name} failed: {res.error[:2000]}")
        if expect_violation is not None:
            rec["expected_violation"] = expect_violation
            if res.violated is None:
                raise MachineryError(f"vacuity: TLC job {name} was expected to violate {expect_violation} but passed")
            if expect_violation is not True and res.violated != expect_violation:
                raise MachineryError(f"vacuity: TLC job {name} violated {res.violated}, expected {expect_violation}")
        return rec

    # ---- cases
    def case(self, key=None, sample=None, nontrivial=True):
        self.evaluations += 1
        if nontrivial and key is not None:
            self.distinct.add(key if isinstance(key, (str, int, tuple)) else json.dumps(key, sort_keys=True, default=str))
        if sample is not None and len(self.samples) < 6:
            self.samples.append(sample)

    def trace_validated(self, n=1):
        self.traces += n

    def violation(self, what, replay=None):
        path = None
        if replay is not None:
            os.makedirs(REPLAY, exist_ok=True)
            path = os.path.join(REPLAY, f"{self.pid}-{len(self.violations)}.json")
            with open(path, "w") as f:
                json.dump(dict(property=self.pid, what=what, seed=self.seed, replay=replay), f, indent=1, default=str)
        self.violations.append((what, path))
        print(f"  violation: {what}"[:600], flush=True)

    def known_finding(self, fid):
        self.known[fid] = self.known.get(fid, 0) + 1

    def match_finding(self, **facts):
        """Return the id of an OPEN finding whose matcher accepts these facts, else None."""
        from . import taints
        for f in self.findings:
            if f["status"] != "open":
                continue
            fn = getattr(taints, f["taint"], None)
            table = getattr(taints, "_MEM_TABLE", {})
            if f["taint"] == "MemUnderProjection" and f["id"] in table:
                prog, func, comp, data, opt = table[f["id"]]
                if not (facts.get("program") == prog and facts.get("func") == func):
                    continue
            if fn is not None and fn(**facts):
                return f["id"]
        return None

    def fail_or_known(self, what, replay=None, **facts):
        fid = self.match_finding(**facts)
        if fid:
            self.known_finding(fid)
            return fid
        self.violation(what, replay)
        return None

    # ---- finish
    def finish(self):
        os.makedirs(EVID, exist_ok=True)
        wall = time.time() - self.t0
        for f in self.findings:
            if f["status"] == "open" and self.known.get(f["id"], 0) > 0:
                print(f"KNOWN-FINDING: property={self.pid} {f['id']} {f['what']} (seen {self.known[f['id']]}x)")
        cov = dict(
            states=max(self.states, 0), transitions=max(self.transitions, 0),
            traces_validated_against_impl=self.traces,
            evaluations=self.evaluations, distinct_nontrivial=len(self.distinct),
            rule=self.rule, samples=self.samples or ["(none)"], exhaustive=self.exhaustive,
            tlc_jobs=self.tlc_jobs, known_findings_seen=self.known, drift=self.drift[:20],
        )
        cov.update(self.extra)
        ev = dict(property_id=self.pid, tier=self.tier, seed=self.seed, level="model_checking", coverage=cov,
                  assumptions=self.assumptions, wall_s=round(wall, 2), violations=len(self.violations))
        with open(os.path.join(EVID, f"{self.pid}.json"), "w") as f:
            json.dump(ev, f, indent=1, default=str)
        if self.violations:
            for what, path in self.violations[:20]:
                print(f"VIOLATION property={self.pid} replay={path or 'n/a'}  # {what}"[:900])
            return 1
        print(f"OK property={self.pid} tier={self.tier} states={self.states} traces={self.traces} "
              f"evaluations={self.evaluations} wall={wall:.1f}s")
        return 0


def show_replay(path):
    """`./check Cxx quick --replay <file>`: print the self-contained counterexample recorded by an earlier run (property, failing
    clause, program / script / history / trace and seed).  Re-running the check with the same VERIF_SEED regenerates it."""
    try:
        d = json.load(open(path))
    except Exception as e:
        print(f"cannot read replay file {path}: {e}", file=sys.stderr)
        return 2
    print(f"VIOLATION property={d.get('property')} replay={path}  # {d.get('what')}")
    print(json.dumps(d.get("replay"), indent=1, default=str)[:20000])
    print(f"(seed {d.get('seed')}: re-run `VERIF_SEED={d.get('seed')} ./check {d.get('property')} quick` to regenerate)")
    return 1


def main(run_fn, pid):
    if "--replay" in sys.argv:
        return show_replay(sys.argv[sys.argv.index("--replay") + 1])
    tier = os.environ.get("VERIF_TIER") or (sys.argv[1] if len(sys.argv) > 1 else "quick")
    seed = int(os.environ.get("VERIF_SEED", "0") or 0)
    chk = Check(pid, tier, seed)
    try:
        run_fn(chk)
        rc = chk.finish()
    except MachineryError as e:
        print(f"MACHINERY-ERROR property={pid}: {e}", file=sys.stderr)
        rc = 2
    except Exception:
        traceback.print_exc()
        print(f"MACHINERY-ERROR property={pid}: unexpected exception in harness", file=sys.stderr)
        rc = 2
    return rc
