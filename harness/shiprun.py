"""Runs the steps of ONE process of a two-process scenario (C20) in a fresh interpreter.
usage: python shiprun.py scenario.json <pid> <exchange dir> <work dir>
Steps: {"a": "input"|"derive"|"ship"|"compute", "p": pid of the acting/receiving process, "i", "j"} with global 1-based handle
indices as in spec/PlanGraph.tla.  The sender (p1) runs first; a "ship" step dumps the array with cloudpickle, the receiver
loads it when it reaches the step.  Prints one JSON line with the outcome of every compute of this process."""
import json
import os
import sys

import numpy as np


def main():
    scen = json.load(open(sys.argv[1]))
    me = int(sys.argv[2])
    xdir, work = sys.argv[3], sys.argv[4]
    import cloudpickle
    import cubed
    import cubed.array_api as xp
    spec = cubed.Spec(work_dir=work, allowed_mem=500_000_000, reserved_mem=0)
    H, S, owner = {}, {}, {}
    out = []
    nh = 0
    ninput = 0
    for k, st in enumerate(scen["hist"], 1):
        a = st["a"]
        if a in ("input", "derive"):
            nh += 1
            owner[nh] = st["p"]
            if a == "input":
                ninput += 1
                S[nh] = (np.arange(12).reshape(3, 4) * (2 * ninput + 1) + 10 * st["p"] + ninput) % 89
            else:
                i, j = st["i"], st["j"]
                S[nh] = (-S[i]) if j == 0 else (S[i] - S[j])    # ONE cubed operation per derive, as in the model (name counters must agree)
            if st["p"] != me:
                continue
            try:
                if a == "input":
                    H[nh] = xp.asarray(S[nh], chunks=(2, 2), spec=spec)
                else:
                    H[nh] = xp.negative(H[i]) if j == 0 else xp.subtract(H[i], H[j])
            except Exception as e:
                out.append(dict(step=k, what="build", ok=False, err=f"{type(e).__name__}: {str(e)[:120]}"))
        elif a == "ship":
            nh += 1
            i = st["i"]
            owner[nh] = st["p"]
            S[nh] = S[i]
            f = os.path.join(xdir, f"ship-{k}.pkl")
            if owner[i] == me:
                if i in H and scen.get("sender_computes"):
                    try:
                        H[i].compute()          # value-neutral: the sender looks at its array before shipping it
                    except Exception as e:
                        out.append(dict(step=k, what=f"sender compute(h{i})", ok=False, err=f"{type(e).__name__}: {str(e)[:120]}"))
                if i in H:
                    with open(f, "wb") as fh:
                        cloudpickle.dump(H[i], fh)
            if st["p"] == me:
                if os.path.exists(f):
                    H[nh] = cloudpickle.load(open(f, "rb"))
        elif a == "compute":
            i = st["i"]
            if owner.get(i) != me or i not in H:
                continue
            try:
                r = H[i].compute(optimize_graph=(k % 2 == 0))
                ok = bool(np.array_equal(np.asarray(r), S[i]))
                out.append(dict(step=k, what=f"compute(h{i})", ok=ok, err="" if ok else "values differ from those fixed when the array was built"))
            except Exception as e:
                out.append(dict(step=k, what=f"compute(h{i})", ok=False, err=f"{type(e).__name__}: {str(e)[:120]}"))
    print("SHIPRUN" + json.dumps(out))


if __name__ == "__main__":
    main()
