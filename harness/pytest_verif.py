"""pytest plugin (`-p harness.pytest_verif`, PYTHONPATH=/verif): replays the REPOSITORY'S OWN test-suite through the trace
monitors.  Every computation any test performs (FinalizedPlan.execute, the contract between plan and executor) is recorded at the
store / callback boundaries by harness/obs.py and written as one DagTrace document; the driver (checks/suitetrace.py) validates the
documents with spec/DagTrace.tla after the pytest run.  Nothing in /repo is touched: the wrapper is installed on the class at
plugin-configure time, in the test process only.

Environment: CUBED_VERIF_SUITE=<dir>  (documents go to <dir>/docs, raw records to <dir>/trace/<xdist worker>)."""
import json
import os
import threading

_state = {"n": 0, "test": "", "depth": 0}
_lock = threading.Lock()


def _base():
    return os.environ.get("CUBED_VERIF_SUITE")


def pytest_configure(config):
    base = _base()
    if not base:
        return
    wid = os.environ.get("PYTEST_XDIST_WORKER", "main")
    tdir = os.path.join(base, "trace", wid)
    os.makedirs(tdir, exist_ok=True)
    os.makedirs(os.path.join(base, "docs"), exist_ok=True)
    os.environ["CUBED_VERIF_TRACE"] = tdir
    site = os.path.join(os.path.dirname(os.path.abspath(__file__)), "site")
    pp = os.environ.get("PYTHONPATH", "")
    if site not in pp.split(os.pathsep):
        os.environ["PYTHONPATH"] = site + os.pathsep + pp if pp else site
    from harness import obs, traced
    from harness.execs import RecordingCallback, export_plan
    obs.install()
    from cubed.core.plan import FinalizedPlan
    orig = FinalizedPlan.execute

    def execute(self, executor=None, callbacks=None, **kw):
        with _lock:
            _state["depth"] += 1
            nested = _state["depth"] > 1
        if nested:       # a computation started while another is being recorded (threads in a test): not segmentable
            try:
                return orig(self, executor=executor, callbacks=callbacks, **kw)
            finally:
                with _lock:
                    _state["depth"] -= 1
        cb = RecordingCallback()
        cbs = [cb] + list(callbacks or [])
        obs.read_events(tdir, clear=True)
        exc = None
        try:
            return orig(self, executor=executor, callbacks=cbs, **kw)
        except BaseException as e:
            exc = e
            raise
        finally:
            try:
                evs = obs.read_events(tdir, clear=True)
                dag = getattr(cb, "dag", None)
                if dag is not None:
                    plan = export_plan(dag)
                    total = int(cb.plan.num_tasks) if getattr(cb, "plan", None) is not None else -1
                    doc = traced.to_dagtrace(plan, evs, total=total)
                    _state["n"] += 1
                    meta = dict(test=_state["test"], executor=type(executor).__name__, raised=(repr(exc)[:200] if exc else None),
                                options={k: str(v)[:40] for k, v in kw.items() if k not in ("spec",)},
                                nstore=sum(1 for e in doc["events"] if e["ev"] in ("setcall", "getcall") and e["data"]))
                    with open(os.path.join(base, "docs", f"{wid}-{_state['n']:05d}.json"), "w") as f:
                        aw = [dict(k="awrite", arr=e["arr"], vshape=e["vshape"], rshape=e.get("rshape"), dims=e.get("dims"))
                              for e in evs if e["k"] == "awrite"]
                        json.dump(dict(meta=meta, doc=doc, plan=plan, awrites=aw), f)
            except Exception as e:   # never break a test
                with open(os.path.join(base, "docs", f"{wid}-errors.txt"), "a") as f:
                    f.write(f"{_state['test']}: {e!r}\n")
            with _lock:
                _state["depth"] -= 1

    FinalizedPlan.execute = execute


def pytest_runtest_setup(item):
    _state["test"] = item.nodeid
