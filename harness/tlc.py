"""Run TLC / parse its output.  Everything TLC writes goes to a scratch dir that is removed."""
import os
import re
import shutil
import subprocess
import tempfile
import time

SPEC_DIR = os.path.join(os.path.dirname(os.path.dirname(os.path.abspath(__file__))), "spec")
JAR = "/opt/veriftools/tla/tla2tools.jar:/opt/veriftools/tla/CommunityModules-deps.jar"


class TLCResult:
    def __init__(self):
        self.ok = False            # finished without error
        self.violated = None       # name of violated invariant/property, if any
        self.generated = 0
        self.distinct = 0
        self.depth = 0
        self.wall = 0.0
        self.out = ""
        self.coverage = {}         # action -> (taken, distinct)
        self.error = None          # machinery error text
        self.timeout = False

    def as_dict(self):
        return dict(ok=self.ok, violated=self.violated, generated=self.generated, distinct=self.distinct,
                    depth=self.depth, wall_s=round(self.wall, 2), timeout=self.timeout)


_RE_STATS = re.compile(r"(\d+) states generated, (\d+) distinct states found")
_RE_DEPTH = re.compile(r"The depth of the complete state graph search is (\d+)")
_RE_INV = re.compile(r"Invariant (\S+) is violated")
_RE_PROP = re.compile(r"(?:Temporal properties were violated|Action property (\S+) is violated|property (\S+) is violated)")
_RE_COV = re.compile(r"^<(\w+) line \d+, col \d+ to line \d+, col \d+ of module (\w+)>: (\d+):(\d+)", re.M)


def write_cfg(path, *, spec=None, init=None, next_=None, constants=None, invariants=(), properties=(),
              constraint=None, action_constraint=None, view=None, postcondition=None, deadlock=None,
              symmetry=None, extra=""):
    lines = []
    if spec:
        lines.append(f"SPECIFICATION {spec}")
    if init:
        lines.append(f"INIT {init}")
    if next_:
        lines.append(f"NEXT {next_}")
    if constants:
        lines.append("CONSTANTS")
        for k, v in constants.items():
            if isinstance(v, bool):
                v = "TRUE" if v else "FALSE"
            elif isinstance(v, str) and not v.startswith(("<-", "{", "<<", "\"")) and not v.lstrip("-").isdigit() \
                    and v not in ("TRUE", "FALSE"):
                v = f'"{v}"'
            if isinstance(v, str) and v.startswith("<-"):
                lines.append(f"  {k} {v}")
            else:
                lines.append(f"  {k} = {v}")
    for i in invariants:
        lines.append(f"INVARIANT {i}")
    for p in properties:
        lines.append(f"PROPERTY {p}")
    if constraint:
        lines.append(f"CONSTRAINT {constraint}")
    if action_constraint:
        lines.append(f"ACTION_CONSTRAINT {action_constraint}")
    if view:
        lines.append(f"VIEW {view}")
    if symmetry:
        lines.append(f"SYMMETRY {symmetry}")
    if postcondition:
        lines.append(f"POSTCONDITION {postcondition}")
    if deadlock is not None:
        lines.append(f"CHECK_DEADLOCK {'TRUE' if deadlock else 'FALSE'}")
    if extra:
        lines.append(extra)
    with open(path, "w") as f:
        f.write("\n".join(lines) + "\n")


def run_tlc(module, cfg_path=None, *, cfg=None, workers=16, timeout=600, simulate=None, depth=None, seed=None,
            coverage=False, env=None, extra_args=(), workdir=None, extra_modules=None, java_opts=(),
            deadlock=None, dfs=False):
    """Run TLC on spec/<module>.tla.  `cfg` (dict of write_cfg kwargs) or cfg_path.
    extra_modules: {name: text} written next to a copy of the spec dir (for generated MC modules)."""
    res = TLCResult()
    scratch = tempfile.mkdtemp(prefix="tlc-")
    try:
        wd = workdir or os.path.join(scratch, "spec")
        if workdir is None:
            shutil.copytree(SPEC_DIR, wd)
        for name, text in (extra_modules or {}).items():
            with open(os.path.join(wd, name), "w") as f:
                f.write(text)
        if cfg is not None:
            cfg_path = os.path.join(wd, f"_{module}_{os.getpid()}_{int(time.time()*1000)%100000}.cfg")
            write_cfg(cfg_path, **cfg)
        cmd = ["java", "-XX:+UseParallelGC", "-Xmx8g"]
        if dfs:
            cmd.append("-Dtlc2.tool.queue.IStateQueue=StateDeque")
        cmd += list(java_opts)
        cmd += ["-cp", JAR, "tlc2.TLC", "-workers", str(workers), "-metadir", os.path.join(scratch, "meta"),
                "-noGenerateSpecTE", "-config", cfg_path]
        if simulate:
            cmd += ["-simulate", simulate]
        if depth:
            cmd += ["-depth", str(depth)]
        if seed is not None:
            cmd += ["-seed", str(seed)]
        if coverage:
            cmd += ["-coverage", "1"]
        if deadlock is False:
            cmd += ["-deadlock"]
        cmd += list(extra_args)
        cmd.append(os.path.join(wd, module + ".tla"))
        e = dict(os.environ)
        if env:
            e.update(env)
        t0 = time.time()
        try:
            p = subprocess.run(cmd, cwd=wd, env=e, capture_output=True, text=True, timeout=timeout)
            res.out = p.stdout + p.stderr
            rc = p.returncode
        except subprocess.TimeoutExpired as ex:
            res.out = (ex.stdout.decode() if isinstance(ex.stdout, bytes) else (ex.stdout or ""))
            res.timeout = True
            rc = -1
        res.wall = time.time() - t0
        m = None
        for m in _RE_STATS.finditer(res.out):
            pass
        if m:
            res.generated, res.distinct = int(m.group(1)), int(m.group(2))
        m = _RE_DEPTH.search(res.out)
        if m:
            res.depth = int(m.group(1))
        m = _RE_INV.search(res.out)
        if m:
            res.violated = m.group(1)
        else:
            m = _RE_PROP.search(res.out)
            if m:
                res.violated = m.group(1) or m.group(2) or "temporal"
        for m in _RE_COV.finditer(res.out):
            res.coverage[m.group(1)] = (int(m.group(3)), int(m.group(4)))
        if "Model checking completed. No error has been found." in res.out or \
                (simulate and rc == 0) or (simulate and res.timeout and not res.violated and "Error:" not in res.out):
            res.ok = True
        elif res.violated is None and not res.timeout:
            mm = re.search(r"Error: (.*)", res.out)
            res.error = (mm.group(1) if mm else "tlc exit %s" % rc) + "\n" + res.out[-3000:]
        if "Deadlock reached" in res.out and res.violated is None:
            res.violated = "Deadlock"
            res.error = None
        if "Assumption" in res.out and "is false" in res.out:
            res.error = res.out[-3000:]
        if "Postcondition" in res.out and "violated" in res.out:
            res.violated = "Postcondition"
            res.error = None
            res.ok = False
        return res
    finally:
        shutil.rmtree(scratch, ignore_errors=True)


def printed_values(out):
    """Yield the text of every PrintT(...) line that starts with a quote or bracket (TLC value syntax)."""
    for line in out.splitlines():
        s = line.strip()
        if s.startswith(("<<", "\"", "[", "{")):
            yield s


def printed_json(out, tag):
    """Lines printed by PrintT(<<"tag", ToJson(x)>>) or PrintT("tag" \\o ToJson(x)); returns parsed JSON objects.
    TLC prints strings with escapes: a line looks like  "tag{\\"a\\":1}"  — unescape it."""
    import json
    res = []
    pref = '"' + tag
    for line in out.splitlines():
        s = line.strip()
        if s.startswith(pref) and s.endswith('"'):
            body = s[len(pref):-1]
            body = body.replace('\\"', '"').replace("\\\\", "\\")
            try:
                res.append(json.loads(body))
            except Exception:
                pass
    return res


def validate_traces(module, traces, *, invariants=("Report",), spec="Spec", timeout=900, workers=1, constants=None):
    """Run a total trace monitor over a batch of traces (one JVM).  Returns (verdicts: {tid(1-based): (verdict, l)}, TLCResult).
    The monitor prints <<"VERDICT", tid, verdict, l>> once per finished trace."""
    import json
    d = tempfile.mkdtemp(prefix="trace-")
    try:
        tf = os.path.join(d, "traces.json")
        with open(tf, "w") as f:
            json.dump(traces, f)
        res = run_tlc(module, cfg=dict(spec=spec, invariants=list(invariants), deadlock=False, constants=constants),
                      workers=workers, timeout=timeout, env={"TRACE_FILE": tf})
        verdicts = {}
        for m in re.finditer(r'<<"VERDICT", (\d+), "([^"]*)", (\d+)>>', res.out):
            verdicts[int(m.group(1))] = (m.group(2), int(m.group(3)))
        return verdicts, res
    finally:
        shutil.rmtree(d, ignore_errors=True)


def validate_traces_parallel(module, traces, *, constants=None, batch=10, jobs=6, timeout=1800):
    """validate_traces over several JVMs at once.  Returns (verdicts {1-based index: (verdict, l)}, [TLCResult])."""
    from concurrent.futures import ThreadPoolExecutor
    chunks = [(off, traces[off:off + batch]) for off in range(0, len(traces), batch)]

    def one(c):
        off, tr = c
        v, r = validate_traces(module, tr, constants=constants, timeout=timeout)
        return off, len(tr), v, r
    verdicts, results = {}, []
    with ThreadPoolExecutor(max_workers=jobs) as ex:
        for off, n, v, r in ex.map(one, chunks):
            results.append(r)
            if len(v) != n:
                r.error = (r.error or "") + f" monitor returned {len(v)} verdicts for {n} traces\n" + r.out[-2000:]
            for t, x in v.items():
                verdicts[off + t] = x
    return verdicts, results
