"""Harness executors and callbacks implementing cubed's public executor / callback contracts."""
import os
import random
import subprocess
import sys
import tempfile
import time

import networkx as nx

from cubed.runtime.types import Callback, DagExecutor, TaskEndEvent
from cubed.runtime.utils import handle_operation_end_callbacks, handle_operation_start_callbacks

from . import obs


class RecordingCallback(Callback):
    """Records every callback event (also into the obs stream, so that they are ordered with store events of the
    client process by its per-process sequence number)."""

    def __init__(self):
        self.events = []
        self.plan = None

    def _rec(self, kind, **kw):
        self.events.append(dict(ev=kind, **kw))
        obs.mark("cb_" + kind, **kw)

    def on_compute_start(self, event):
        self.plan = getattr(event, "plan", None)
        self.dag = getattr(event, "dag", None)
        self._rec("computestart")

    def on_compute_end(self, event):
        self._rec("computeend")

    def on_operation_start(self, event):
        self._rec("opstart", op=event.name)

    def on_operation_end(self, event):
        self._rec("opend", op=event.name)

    def on_task_end(self, event):
        self._rec("taskend", op=event.name, n=getattr(event, "num_tasks", 1))


class CrashNow(BaseException):
    """Simulated crash of the client (BaseException so that nothing in cubed swallows it)."""


def runnable_ops(dag):
    """Operations an executor must run, in a topological order: nodes with a pipeline that are not marked computed."""
    nodes = dict(dag.nodes(data=True))
    for name in nx.topological_sort(dag):
        d = nodes[name]
        if d.get("pipeline") is None or d.get("computed", False):
            continue
        yield name, d


class AdversarialExecutor(DagExecutor):
    """Sequential executor that follows a script:
       order      : 'fwd' | 'rev' | 'shuffle'   order of the tasks of each operation
       repeats    : probability that a finished task is re-executed later (after its operation, or after downstream ops)
       pickle_p   : probability that a task execution goes through a cloudpickle round trip of (function, input, config)
                    executed in a fresh interpreter
       crash_after_tasks : stop (raise CrashNow) after this many task executions (None = never)
       per_task   : optional callable(op_name, index, run) -> result, wraps the execution (tracemalloc etc.)
       op_order   : 'topo' | 'rev-topo-valid' (another valid topological order)
    """

    def __init__(self, order="fwd", repeats=0.0, pickle_p=0.0, crash_after_tasks=None, seed=0, per_task=None,
                 late_repeats=True, recreate=False, **kwargs):
        super().__init__(**kwargs)
        self.order, self.repeats, self.pickle_p = order, repeats, pickle_p
        self.crash_after_tasks = crash_after_tasks
        self.rng = random.Random(seed)
        self.per_task = per_task
        self.late_repeats = late_repeats
        self.recreate = recreate     # re-run array-creation tasks after every operation and at the very end
        self.log = []          # (op, index, mappable item repr, kind)
        self.ntasks = 0
        self.entered = False

    @property
    def name(self):
        return "adversarial"

    def _run_one(self, name, pipeline, m, idx, kind):
        obs.CURRENT["task"] = [name, idx, kind]
        obs.mark("taskstart", op=name, idx=idx, kind=kind)
        try:
            def run():
                if self.pickle_p and self.rng.random() < self.pickle_p:
                    return run_in_fresh_process(pipeline.function, m, pipeline.config)
                return pipeline.function(m, config=pipeline.config)
            if self.per_task is not None:
                r = self.per_task(name, idx, run)
            else:
                r = run()
        finally:
            obs.mark("taskdone", op=name, idx=idx, kind=kind)
            obs.CURRENT["task"] = None
        self.log.append((name, idx, kind))
        self.ntasks += 1
        if self.crash_after_tasks is not None and self.ntasks >= self.crash_after_tasks:
            raise CrashNow(f"crash after {self.ntasks} tasks")
        return r

    def execute_dag(self, dag, callbacks=None, spec=None, compute_id=None, **kwargs):
        self.entered = True
        obs.mark("exec_enter")
        late = []   # tasks to repeat after later operations have run
        create = None
        for name, node in runnable_ops(dag):
            if name == "create-arrays":
                create = (node["pipeline"], list(node["pipeline"].mappable))
            elif self.recreate and create is not None and create[1]:
                # a duplicate / zombie array-creation task arriving late (open-or-create must not wipe anything)
                j = self.rng.randrange(len(create[1]))
                self._run_one("create-arrays", create[0], create[1][j], j, "dup-late")
            handle_operation_start_callbacks(callbacks, name)
            pipeline = node["pipeline"]
            items = list(pipeline.mappable)
            idxs = list(range(len(items)))
            if self.order == "rev":
                idxs.reverse()
            elif self.order == "shuffle":
                self.rng.shuffle(idxs)
            done = []
            for i in idxs:
                r = self._run_one(name, pipeline, items[i], i, "first")
                if callbacks is not None:
                    ev = TaskEndEvent(name=name, result=r)
                    for cb in callbacks:
                        cb.on_task_end(ev)
                done.append(i)
                if self.repeats and self.rng.random() < self.repeats:
                    j = self.rng.choice(done)
                    self._run_one(name, pipeline, items[j], j, "dup-now")
            # duplicates after the op completed (before end callback and after)
            for i in idxs:
                if self.repeats and self.rng.random() < self.repeats / 2:
                    self._run_one(name, pipeline, items[i], i, "dup-endop")
                if self.late_repeats and self.repeats and self.rng.random() < self.repeats / 2:
                    late.append((name, pipeline, items[i], i))
            handle_operation_end_callbacks(callbacks, name)
            # zombies of earlier operations running after this (downstream) op
            if late and self.rng.random() < 0.5:
                n2, p2, m2, i2 = late.pop(self.rng.randrange(len(late)))
                if name != n2 and name != "create-arrays":
                    self._run_one(n2, p2, m2, i2, "dup-late")
        for n2, p2, m2, i2 in late:
            self._run_one(n2, p2, m2, i2, "dup-final")
        if self.recreate and create is not None:
            for j, m in enumerate(create[1]):
                self._run_one("create-arrays", create[0], m, j, "dup-final")
        obs.mark("exec_exit")


_CHILD = r"""
import sys, cloudpickle
sys.path.insert(0, {verif!r})
import os
if os.environ.get("CUBED_VERIF_TRACE"):
    from harness import obs; obs.install()
    import json
    obs.CURRENT["task"] = json.loads(os.environ.get("CUBED_VERIF_TASK", "null"))
f, m, config = cloudpickle.load(open(sys.argv[1], "rb"))
r = f(m, config=config)
cloudpickle.dump(r, open(sys.argv[2], "wb"))
"""


def run_in_fresh_process(function, m, config):
    """Execute one task from its serialized form in a fresh interpreter (placement independence)."""
    import cloudpickle
    import json
    d = tempfile.mkdtemp(prefix="task-")
    try:
        inp, out = os.path.join(d, "in.pkl"), os.path.join(d, "out.pkl")
        with open(inp, "wb") as f:
            cloudpickle.dump((function, m, config), f)
        verif = os.path.dirname(os.path.dirname(os.path.abspath(__file__)))
        env = dict(os.environ)
        env["CUBED_VERIF_TASK"] = json.dumps(obs.CURRENT["task"])
        p = subprocess.run([sys.executable, "-c", _CHILD.format(verif=verif), inp, out], capture_output=True, text=True,
                           env=env, timeout=300)
        if p.returncode != 0:
            raise RuntimeError("task failed in fresh process:\n" + p.stderr[-3000:])
        import cloudpickle as cp
        return cp.load(open(out, "rb"))
    finally:
        import shutil
        shutil.rmtree(d, ignore_errors=True)


def target_path(t):
    """Filesystem path of the zarr array behind a plan node target (LazyZarrArray or zarr.Array), else None."""
    if t is None:
        return None
    store = getattr(t, "store", None)
    path = getattr(t, "path", None)
    if store is None:
        return None
    root = getattr(store, "root", store)
    try:
        root = str(root)
    except Exception:
        return None
    if not isinstance(root, str) or root.startswith("<"):
        return None
    return os.path.normpath(os.path.join(root, path)) if path else os.path.normpath(root)


def export_plan(dag):
    """Project a (finalized) plan DAG to plain data: ops (name, advertised num_tasks, outputs, inputs) and
    arrays (name, path, producer op, shape, chunks grid, dtype).  Producer relation comes from the ops' WRITE targets
    (writes_map), not from DAG edges."""
    nodes = dict(dag.nodes(data=True))
    ops, arrays = [], {}
    for n, d in nodes.items():
        if d.get("type") == "array":
            t = d.get("target")
            dt = getattr(t, "dtype", None)
            try:
                import numpy as _np
                nfields = len(_np.dtype(dt).names or ()) if dt is not None else 0
            except Exception:
                nfields = 0
            ch = getattr(t, "chunks", None)
            arrays[n] = dict(name=n, path=target_path(t), prod=None, shape=list(getattr(t, "shape", ()) or ()),
                             dtype=str(dt if dt is not None else ""), kind=type(t).__name__, nfields=nfields,
                             chunks=list(ch) if isinstance(ch, (tuple, list)) and all(isinstance(c, int) for c in ch) else None,
                             shards=(list(getattr(t, "shards", None) or ()) or None) if type(t).__name__ != "LazyZarrArray" else None)
    for n, d in nodes.items():
        po = d.get("primitive_op")
        if po is None:
            continue
        cfg = po.pipeline.config
        outs, ins = [], []
        if cfg is not None and hasattr(cfg, "writes_map"):
            for an, wp in cfg.writes_map.items():
                outs.append(dict(name=an, path=target_path(wp.array)))
            ins = list(cfg.reads_map)
        else:
            # create-arrays: mappable is the list of lazy arrays
            pass
        try:
            nmap = sum(1 for _ in po.pipeline.mappable)
        except Exception:
            nmap = -1
        ops.append(dict(name=n, nt=int(po.num_tasks), nmap=nmap, outs=outs, ins=ins, computed=bool(d.get("computed", False)),
                        projected=int(po.projected_mem), allowed=int(po.allowed_mem), reserved=int(po.reserved_mem)))
        for o in outs:
            if o["name"] in arrays:
                arrays[o["name"]]["prod"] = n
                if arrays[o["name"]]["path"] is None:
                    arrays[o["name"]]["path"] = o["path"]
            else:
                arrays[o["name"]] = dict(name=o["name"], path=o["path"], prod=n, shape=[], dtype="", kind="?")
    return dict(ops=ops, arrays=list(arrays.values()))
