"""Drive the real cubed.runtime.asyncio.async_map_unordered in virtual time with a scripted environment.

The harness *is* the environment: it supplies create_futures_func, futures whose completion instant, outcome and
position in the `finished` set are scripted, a virtual-time event loop and a virtual `time.monotonic`.
Every observable step is recorded as a trace event (Submit / Attempt / Done / Yield / Cancel / Raise / Return).
"""
import asyncio
import heapq
import time as _time


class VLoop(asyncio.SelectorEventLoop):
    """Event loop whose clock jumps to the next timer when nothing is runnable."""

    def __init__(self):
        super().__init__()
        self._vt = 0.0

    def time(self):
        return self._vt

    def _run_once(self):
        if not self._ready and self._scheduled:
            nxt = self._scheduled[0]._when
            if nxt > self._vt:
                self._vt = nxt
        super()._run_once()


class SFut(asyncio.Future):
    """Future whose hash (hence position when a set of futures is iterated) is scripted."""

    def __init__(self, *, loop, h, fid, rec):
        super().__init__(loop=loop)
        self._h = h
        self.fid = fid
        self._rec = rec

    def __hash__(self):
        return self._h

    def __eq__(self, o):
        return self is o

    def exception(self):
        # the loop body of async_map_unordered starts by asking a finished future for its exception: log the visit order
        if self.done() and not self.cancelled() and not getattr(self, "_visited", False):
            self._visited = True
            self._rec.append({"ev": "Visit", "f": self.fid})
        return super().exception()

    def cancel(self, msg=None):
        was = self.done()
        r = super().cancel(msg)
        self._rec.append({"ev": "Cancel", "f": self.fid, "eff": bool(r), "wasdone": was})
        return r


class InjectedFailure(Exception):
    pass


class Script:
    """Per-input script.
    dur[i]    : virtual seconds the original submission of input i takes (per attempt)
    fails[i]  : number of failing attempts of the original before it succeeds (>= retries+1 -> it fails)
    bdur[i], bfails[i] : same for a backup submission of input i
    order     : 'asc' | 'desc' -> iteration order of futures that finish in the same wake-up
    """

    def __init__(self, n, dur, fails, bdur, bfails, order="asc", retries=2, use_backups=True, batch_size=None,
                 use_real_retry=True):
        self.n, self.dur, self.fails, self.bdur, self.bfails = n, dur, fails, bdur, bfails
        self.order, self.retries, self.use_backups, self.batch_size = order, retries, use_backups, batch_size
        self.use_real_retry = use_real_retry

    def to_json(self):
        return dict(n=self.n, dur=self.dur, fails=self.fails, bdur=self.bdur, bfails=self.bfails, order=self.order,
                    retries=self.retries, use_backups=self.use_backups, batch_size=self.batch_size)


def run_script(sc, max_vtime=10_000.0):
    """Run the real async_map_unordered under script `sc`.  Returns dict(trace=[...], outcome=..., vtime=...)."""
    import cubed.runtime.asyncio as cra
    from cubed.runtime.executors.local import threads_create_futures_func

    loop = VLoop()
    loop.set_exception_handler(lambda lp, ctx: None)
    class Rec(list):
        def append(self, e):
            e["t"] = loop.time()
            super().append(e)
    rec = Rec()
    nf = [0]
    # virtual time.monotonic for the module under test (it uses time.monotonic for start/end times)
    real_time_mod = cra.time

    class FakeTime:
        @staticmethod
        def monotonic():
            return loop.time()

        @staticmethod
        def time():
            return loop.time()

    cra.time = FakeTime

    class FakePool:
        """Stands in for the concurrent executor: submit(function, i, **kw) returns a concurrent-like future
        that asyncio.wrap_future can wrap -- we bypass wrap_future by making create_futures ourselves below."""

    def make_future(i, backup):
        nf[0] += 1
        fid = nf[0]
        h = fid if sc.order == "asc" else 10_000 - fid
        fut = SFut(loop=loop, h=h, fid=fid, rec=rec)
        rec.append({"ev": "Submit", "f": fid, "i": i, "backup": backup})
        dur = (sc.bdur if backup else sc.dur)[i]
        nfail = (sc.bfails if backup else sc.fails)[i]
        state = {"att": 0}

        def attempt(x):
            state["att"] += 1
            ok = state["att"] > nfail
            rec.append({"ev": "Attempt", "f": fid, "ok": ok, "n": state["att"]})
            if not ok:
                raise InjectedFailure(f"input {i} future {fid} attempt {state['att']}")
            return x

        # the REAL retry wrapper of the threads executor, around the scripted attempt function
        class OnePool:
            def submit(self, function, inp, **kw):
                self.function = function
                return None

        if sc.use_real_retry:
            holder = OnePool()
            # threads_create_futures_func wraps function with tenacity Retrying(retries+1) and calls
            # asyncio.wrap_future(pool.submit(...)); we only want the wrapped callable, so capture it:
            orig_wrap = asyncio.wrap_future
            try:
                asyncio.wrap_future = lambda x, **kw: x
                cff = threads_create_futures_func(holder, attempt, sc.retries)
                cff([i])
            finally:
                asyncio.wrap_future = orig_wrap
            wrapped = holder.function
        else:
            wrapped = attempt

        def complete():
            # the whole retry loop of one submission runs "in the pool"; each attempt takes `dur`
            if fut.done():   # cancelled meanwhile
                return
            try:
                r = wrapped(i)
            except BaseException as e:  # noqa
                rec.append({"ev": "Done", "f": fid, "ok": False, "att": state["att"], "doomed": nfail > sc.retries})
                fut.set_exception(e)
            else:
                rec.append({"ev": "Done", "f": fid, "ok": True, "att": state["att"]})
                fut.set_result(r)

        attempts_needed = min(nfail + 1, sc.retries + 1)
        loop.call_later(dur * attempts_needed, complete)
        return fut

    def create_futures_func(inputs, **kw):
        return [(i, make_future(i, False)) for i in inputs]

    def create_backup_futures_func(inputs, **kw):
        return [(i, make_future(i, True)) for i in inputs]

    outcome = {}

    async def main():
        agen = cra.async_map_unordered(create_futures_func, list(range(1, sc.n + 1)), use_backups=sc.use_backups,
                                       create_backup_futures_func=create_backup_futures_func,
                                       batch_size=sc.batch_size)
        try:
            async for r in agen:
                rec.append({"ev": "Yield", "i": r})
        except InjectedFailure as e:
            rec.append({"ev": "Raise", "kind": "injected", "msg": str(e)})
            outcome["kind"] = "raised"
        except asyncio.CancelledError:
            outcome["kind"] = "hang"
            raise
        except BaseException as e:  # noqa
            rec.append({"ev": "Raise", "kind": type(e).__name__, "msg": str(e)[:200]})
            outcome["kind"] = "crashed:" + type(e).__name__
        else:
            rec.append({"ev": "Return"})
            outcome["kind"] = "done"

    import contextlib
    import io
    try:
        asyncio.set_event_loop(loop)
        with contextlib.redirect_stdout(io.StringIO()):
            t = loop.create_task(main())

            def stop():
                if not t.done():
                    outcome["kind"] = "hang"
                    rec.append({"ev": "Hang"})
                    t.cancel()
            watchdog = loop.call_later(max_vtime, stop)
            try:
                loop.run_until_complete(t)
            except asyncio.CancelledError:
                pass
        watchdog.cancel()
    finally:
        cra.time = real_time_mod
        try:
            loop.close()
        except Exception:
            pass
        asyncio.set_event_loop(None)
    return dict(trace=rec, outcome=outcome.get("kind", "hang"), vtime=loop.time(), nfut=nf[0])


def oracle(sc, res):
    """The property itself, evaluated on the recorded trace.  Returns list of failure strings."""
    tr = res["trace"]
    bad = []
    subs, fst, att, ybyinput = {}, {}, {}, {}
    fin = {}
    for e in tr:
        if e["ev"] == "Submit":
            subs.setdefault(e["i"], []).append((e["f"], e["backup"]))
            fin[e["f"]] = e["i"]
            fst[e["f"]] = "run"
        elif e["ev"] == "Attempt":
            att[e["f"]] = att.get(e["f"], 0) + 1
        elif e["ev"] == "Done":
            fst[e["f"]] = "ok" if e["ok"] else "fail"
            if not e["ok"] and att.get(e["f"], 0) != sc.retries + 1:
                bad.append(f"future {e['f']} gave up after {att.get(e['f'], 0)} attempts, retry budget is {sc.retries + 1}")
        elif e["ev"] == "Yield":
            ybyinput[e["i"]] = ybyinput.get(e["i"], 0) + 1
    for i, c in ybyinput.items():
        if c > 1:
            bad.append(f"input {i} delivered {c} times")
    for i, ss in subs.items():
        if len(ss) > 2:
            bad.append(f"input {i} submitted {len(ss)} times")
        if sum(1 for _, b in ss if b) > 1:
            bad.append(f"input {i} has more than one backup")
    for f, a in att.items():
        if a > sc.retries + 1:
            bad.append(f"future {f} made {a} attempts > retries+1")
    lost = [i for i in range(1, sc.n + 1) if i in subs and all(fst[f] == "fail" for f, _ in subs[i])]
    out = res["outcome"]
    if out == "done":
        for i in range(1, sc.n + 1):
            if ybyinput.get(i, 0) != 1:
                bad.append(f"finished normally but input {i} delivered {ybyinput.get(i, 0)} times")
            if not any(fst.get(f) == "ok" for f, _ in subs.get(i, [])):
                bad.append(f"finished normally but input {i} has no successful submission")
    elif out == "raised":
        if not lost:
            bad.append("raised a task error although no input is lost (every submitted input has a successful "
                       "or still-running submission)")
    elif out == "hang":
        bad.append("did not terminate within the virtual time bound")
    else:
        bad.append(f"ended with an exception that is not the task's error: {out}")
    # every input whose original+backup can only fail must surface as raise; every input that can succeed within
    # retry budget must allow normal completion: (normal completion iff no input is doomed) -- doomed = the original
    # fails for good and (no backup was launched or the backup fails for good)
    return bad
