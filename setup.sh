#!/bin/sh
# offline setup: verify tools, create scratch/evidence dirs. Nothing is fetched.
set -e
cd "$(dirname "$0")"
command -v java >/dev/null
test -f /opt/veriftools/tla/tla2tools.jar
test -x /venv/bin/python
/venv/bin/python -c "import cubed, zarr, numpy, networkx, cloudpickle" 
mkdir -p evidence
echo setup ok
