---- MODULE TaskMem ----
(* What a task keeps alive versus what cubed projects for it (C03).
     primitive/memory.py    calculate_projected_mem:  reserved + sum_inputs in*(read_copies + 1) + extra + out*(1 + write_copies)
     primitive/blockwise.py apply_blockwise / get_results_in_different_scope (arguments are read, the function runs, the
                            arguments go out of scope, each output block is written), peak_projected_mem (MemoryModeller)
                            and fuse_multiple: fused projection = max(op, peak of predecessors run in order, results kept)
   A task is abstracted to phases; sizes are small integer units; TLC enumerates EVERY operation shape within the bounds
   (Init has one state per shape) and evaluates the invariants on it:
     arguments 1..MaxArgs, each  single | list of k blocks (all resident together) | iterator of k blocks (streamed: one block
     at a time plus the running result), block size 1..MaxSize, output size 1..MaxSize, declared extra 0..MaxExtra, actual
     extra <= declared, each argument optionally produced by a fused predecessor (one input, its own extra).
   Findings of the model (each confirmed or refuted by measurement in checks/c03.py):
     - the formula counts ONE block per input array, so a LIST argument of k > 1 resident blocks is covered only if the
       operation declares extra_projected_mem >= (k - 1) * size      (this is how unstack under-projects: F11)
     - a streamed argument needs the running result next to the current block: covered by the documented extra chunk
     - of several outputs only the LARGEST block is counted (all are resident when the function returns): the others need
       declared extra memory; counting the LAST output instead (switch OutRule = "last") under-projects whenever an earlier
       output has the larger chunks
   Invariant Dominates: Safe(op) => PeakLive(op) <= Projected(op) - Reserved;  UnsafeExists shows the bound is tight. *)
EXTENDS Integers, Sequences, FiniteSets, TLC
CONSTANTS MaxArgs, MaxK, MaxSize, MaxExtra, ReadCopies, WriteCopies, Reserved,
          OutRule    \* "max" (cubed: general_blockwise counts the LARGEST output block) | "last" (design switch: the last output's
                     \* block, as if all outputs had one chunk size) -- "last" must violate Dominates
VARIABLE op
Kinds == {"single", "list", "iter"}
ArgSpace == [kind : Kinds, k : 1..MaxK, size : 1..MaxSize, pred : BOOLEAN, pin : 1..MaxSize, pextra : 0..1]
\* out2 = 0: one output; out2 > 0: a second output with its own block size (same number of blocks, different chunk size)
OpSpaceN(n) == [args : [1..n -> ArgSpace], out : 1..MaxSize, out2 : 0..MaxSize, extra : 0..MaxExtra, actual : 0..MaxExtra]
Init == \E n \in 1..MaxArgs : /\ op \in OpSpaceN(n)      \* enumerated lazily: the space is larger than TLC's set-size limit
                               /\ op.actual <= op.extra /\ \A j \in DOMAIN op.args : (op.args[j].kind = "single" => op.args[j].k = 1)
Next == UNCHANGED op
Spec == Init /\ [][Next]_op
Max(a, b) == IF a > b THEN a ELSE b
RECURSIVE SumTo(_, _, _)
SumTo(f(_), n, acc) == IF n = 0 THEN acc ELSE SumTo(f, n - 1, acc + f(n))
N == Len(op.args)
A(j) == op.args[j]
\* blocks of argument j that stay resident once it has been read (an iterator reads on demand, inside the function)
Resident(j) == IF A(j).kind = "iter" THEN 0 ELSE A(j).k * A(j).size
\* live data while block b of argument j is being obtained: earlier arguments, earlier blocks of this list, and either a
\* storage read (encoded copy + decoded block) or the fused predecessor producing it (its input read, its extra, its result)
GetBlock(j) == IF A(j).pred THEN Max(A(j).pin * (ReadCopies + 1), A(j).pin + A(j).pextra + A(j).size)
               ELSE A(j).size * (ReadCopies + 1)
ResidentBefore(j) == SumTo(LAMBDA i : Resident(i), j - 1, 0)
ReadPeak(j) == ResidentBefore(j) + (IF A(j).kind = "list" THEN (A(j).k - 1) * A(j).size ELSE 0) + GetBlock(j)
\* while the function runs: resident arguments + actual extra + output + per streamed argument the current block being
\* obtained and the running result of the reduction
StreamLive(j) == IF A(j).kind = "iter" THEN GetBlock(j) + A(j).size ELSE 0
\* the function returns ALL output blocks together; they are then written one after the other (one encoded copy at a time)
OutSum == op.out + op.out2
OutMax == Max(op.out, op.out2)
OutCounted == IF OutRule = "max" THEN OutMax ELSE (IF op.out2 > 0 THEN op.out2 ELSE op.out)
FuncPeak == ResidentBefore(N + 1) + op.actual + OutSum + SumTo(LAMBDA j : StreamLive(j), N, 0)
WritePeak == OutSum + OutMax * WriteCopies
PeakLive == Max(Max(SumTo(LAMBDA j : ReadPeak(j), 0, 0), FuncPeak), WritePeak)
RECURSIVE MaxRead(_)
MaxRead(j) == IF j = 0 THEN 0 ELSE Max(ReadPeak(j), MaxRead(j - 1))
Peak == Max(Max(MaxRead(N), FuncPeak), WritePeak)
\* ---- cubed's accounting
OwnProjected == Reserved + SumTo(LAMBDA j : A(j).size * (ReadCopies + 1), N, 0) + op.extra + OutCounted * (1 + WriteCopies)
PredProjected(j) == Reserved + A(j).pin * (ReadCopies + 1) + A(j).pextra + A(j).size * (1 + WriteCopies)
RECURSIVE PredPeak(_, _, _)
PredPeak(j, cur, pk) ==      \* MemoryModeller over the fused predecessors in argument order
   IF j > N THEN pk
   ELSE IF A(j).pred THEN LET c1 == cur + PredProjected(j) IN PredPeak(j + 1, c1 - (PredProjected(j) - A(j).size), Max(pk, c1))
        ELSE PredPeak(j + 1, cur, pk)
Projected == Max(OwnProjected, PredPeak(1, 0, 0))
\* ---- when does the formula dominate?
ListSlack == SumTo(LAMBDA j : IF A(j).kind = "list" THEN (A(j).k - 1) * A(j).size ELSE 0, N, 0)
StreamSlack == SumTo(LAMBDA j : IF A(j).kind = "iter" THEN A(j).size ELSE 0, N, 0)
PredSlack == SumTo(LAMBDA j : IF A(j).pred /\ A(j).kind # "single" THEN A(j).k * (A(j).pin + A(j).pextra) ELSE 0, N, 0)
OutSlack == OutSum - OutMax        \* the smaller output of a two-output operation is not counted by the formula
Safe == op.extra - op.actual >= ListSlack + StreamSlack + PredSlack + OutSlack
Dominates == Safe => Peak <= Projected - Reserved
\* vacuity: without the side condition the formula does NOT dominate (TLC must find an under-projected shape)
DominatesUnconditionally == Peak <= Projected - Reserved
====
