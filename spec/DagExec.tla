---- MODULE DagExec ----
(* Execution of a finalized cubed plan, one action per critical section of the real code:
     plan.py      FinalizedPlan.execute (validate, resume -> already_computed), create_zarr_arrays / create_zarr_array(mode="a")
     pipeline.py  visit_nodes (topological order, skip computed), visit_node_generations
     asyncio.py   async_map_dag (one stream per operation, drained before the next operation / generation)
     local.py     SingleThreadedExecutor / ThreadsExecutor / ProcessesExecutor
     blockwise.py apply_blockwise (read input blocks, compute, write each output block as one whole chunk)
   The plan is constant data (an MC module generated per plan shape); schedules, duplicate / zombie executions
   (retries, backups), the crash point and the resume are the behaviours TLC explores.

   Design switches (cubed = TRUE, "settled", "a", "all"); every non-cubed value must make TLC report a violation
   (vacuity test of the invariant next to it):
     CreateFirst = FALSE      operations do not wait for create-arrays          -> NoBadRead
     DepRule     = "started"  an operation starts when its producers have merely started -> NoBadRead
     CreateMode  = "w"        array creation truncates existing data            -> NoWipe
     ResumeRule  = "any"      resume trusts an array that has SOME chunk          -> SkipOnlyComplete / FinalGood
     ResumeRule  = "count"    resume compares zarr's nchunks_initialized (stored keys x chunks per key) with the declared
                              number of chunks: for a SHARDED array with a ragged edge the two units differ (finding F27:
                              cubed before its repair)                           -> SkipOnlyComplete / NoRecomputeOfComplete
   A plan whose Writes give one key to two tasks (misaligned layout: read-modify-write) violates SingleWriter and,
   dynamically, FinalGood (lost update). *)
EXTENDS Integers, Sequences, FiniteSets, TLC
CONSTANTS Ops, Create, Arrays, Lazy, Prod, NT, Reads, Writes, Sched, MaxExec, MaxDup, MayCrash,
          CreateFirst, DepRule, CreateMode, ResumeRule,
          NChunks, CPS   \* per array: declared number of chunks, and chunks counted per stored key (1, or chunks per shard)
VARIABLES meta,    \* arrays whose metadata exists in storage
          chunks,  \* key -> None | Old | <<op, set of tasks whose part is present, "good"|"bad">>
          ost,     \* op -> "idle" | "run" | "done" | "skip"
          ex,      \* live task executions (records): op, t, n, pc, seen, snap
          won,     \* op -> tasks whose result was delivered
          nexec,   \* op -> task -> executions started
          phase,   \* "first" | "crashed" | "resumed"
          ev       \* callback event log (history; hidden by View)
vars == <<meta, chunks, ost, ex, won, nexec, phase, ev>>
None == <<"none", {}, "-">>
Old == <<"old", {}, "-">>
Tasks(o) == 1..NT[o]
WKeys(o, t) == {Writes[o][t][i] : i \in 1..Len(Writes[o][t])}
AllKeys == UNION {UNION {WKeys(o, t) : t \in Tasks(o)} : o \in Ops \ {Create}}
KeysOf(a) == {k \in AllKeys : k[1] = a}
Outs(o) == {a \in Arrays : Prod[a] = o}
Writers(k) == {t \in Tasks(Prod[k[1]]) : k \in WKeys(Prod[k[1]], t)}
RDeps(o) == {Prod[k[1]] : k \in UNION {Reads[o][t] : t \in Tasks(o)}}
Deps(o) == IF o = Create THEN {} ELSE RDeps(o) \cup (IF CreateFirst THEN {Create} ELSE {})
RECURSIVE Gen(_)
Gen(o) == IF Deps(o) = {} THEN 0
          ELSE 1 + CHOOSE m \in 0..Cardinality(Ops) : (\A d \in Deps(o) : Gen(d) <= m) /\ (\E d \in Deps(o) : Gen(d) = m)
Settled(o) == ost[o] \in {"done", "skip"}
DepOk(d) == IF DepRule = "settled" THEN Settled(d) ELSE ost[d] # "idle"
LazySeq == CHOOSE s \in [1..Cardinality(Lazy) -> Lazy] : \A i, j \in 1..Cardinality(Lazy) : i # j => s[i] # s[j]

Init == /\ meta = Arrays \ Lazy
        /\ chunks = [k \in AllKeys |-> IF k[1] \in Lazy THEN None ELSE Old]
        /\ ost = [o \in Ops |-> "idle"] /\ ex = {} /\ won = [o \in Ops |-> {}]
        /\ nexec = [o \in Ops |-> [t \in Tasks(o) |-> 0]] /\ phase = "first" /\ ev = <<>>
\* pipeline.py / asyncio.py: sequential = the previous operation's stream is drained; generations = all earlier generations settled
CanStart(o) == /\ ost[o] = "idle"
               /\ \A d \in Deps(o) : DepOk(d)
               /\ IF DepRule = "settled"
                  THEN IF Sched = "seq" THEN \A p \in Ops : ost[p] # "run"
                                        ELSE \A p \in Ops : Gen(p) < Gen(o) => Settled(p)
                  ELSE TRUE
StartOp(o) == /\ phase \in {"first", "resumed"} /\ CanStart(o) /\ ost' = [ost EXCEPT ![o] = "run"]
              /\ ev' = Append(ev, <<"opstart", o>>) /\ UNCHANGED <<meta, chunks, ex, won, nexec, phase>>
\* async_map_unordered submits every input once; retries/backups/zombies are further executions of the same task,
\* which may outlive their operation (backup twins are never cancelled on the worker)
RECURSIVE SumDup(_, _)
SumDup(S, acc) == IF S = {} THEN acc ELSE LET x == CHOOSE y \in S : TRUE IN
                     SumDup(S \ {x}, acc + (IF nexec[x[1]][x[2]] > 1 THEN nexec[x[1]][x[2]] - 1 ELSE 0))
TotalDup == SumDup({<<o, t>> \in Ops \X (1..4) : t \in Tasks(o)}, 0)
Submit(o, t) == /\ phase \in {"first", "resumed"} /\ ost[o] \in {"run", "done"} /\ nexec[o][t] < MaxExec
                /\ (nexec[o][t] > 0 => TotalDup < MaxDup)   \* bound on duplicate executions in the whole plan
                /\ (ost[o] = "done" => nexec[o][t] > 0)       \* a zombie is a duplicate of something that ran
                /\ nexec' = [nexec EXCEPT ![o][t] = @ + 1]
                /\ ex' = ex \cup {[op |-> o, t |-> t, n |-> nexec[o][t] + 1, pc |-> 0, seen |-> "good", snap |-> {}]}
                /\ UNCHANGED <<meta, chunks, ost, won, phase, ev>>
GoodVal(k) == <<Prod[k[1]], Writers(k), "good">>
Good(k) == chunks[k] = GoodVal(k)
Parts(k, o) == IF chunks[k][1] = o THEN chunks[k][2] ELSE {}
Step(e) ==
   /\ e \in ex
   /\ IF e.op = Create THEN       \* create_zarr_array: open-or-create
         LET a == LazySeq[e.t] IN
         /\ e.pc = 0
         /\ meta' = meta \cup {a}
         /\ chunks' = IF CreateMode = "w" THEN [k \in AllKeys |-> IF k[1] = a THEN None ELSE chunks[k]] ELSE chunks
         /\ ex' = (ex \ {e}) \cup {[e EXCEPT !.pc = 1]}
      ELSE IF e.pc = 0 THEN       \* read every input block (missing metadata or chunk => fill values => wrong data)
         LET bad == \E k \in Reads[e.op][e.t] : ~Good(k) \/ k[1] \notin meta IN
         /\ ex' = (ex \ {e}) \cup {[e EXCEPT !.pc = 1, !.seen = IF bad THEN "bad" ELSE "good"]}
         /\ UNCHANGED <<meta, chunks>>
      ELSE                        \* write output chunks one key at a time
         /\ e.pc <= Len(Writes[e.op][e.t])
         /\ LET k == Writes[e.op][e.t][e.pc] IN
            IF Writers(k) = {e.t} THEN        \* whole-chunk write, no prior read
               /\ chunks' = [chunks EXCEPT ![k] = IF k[1] \in meta THEN <<e.op, {e.t}, e.seen>> ELSE @]
               /\ ex' = (ex \ {e}) \cup {[e EXCEPT !.pc = @ + 1]}
            ELSE IF e.snap = {} THEN         \* partial chunk: zarr reads the chunk first ...
               /\ ex' = (ex \ {e}) \cup {[e EXCEPT !.snap = Parts(k, e.op) \cup {0}]}
               /\ UNCHANGED chunks
            ELSE                             \* ... and writes back what it saw plus its own part
               /\ chunks' = [chunks EXCEPT ![k] = IF k[1] \in meta THEN <<e.op, (e.snap \ {0}) \cup {e.t}, e.seen>> ELSE @]
               /\ ex' = (ex \ {e}) \cup {[e EXCEPT !.pc = @ + 1, !.snap = {}]}
         /\ UNCHANGED meta
   /\ UNCHANGED <<ost, won, nexec, phase, ev>>
Finished(e) == IF e.op = Create THEN e.pc = 1 ELSE e.pc = Len(Writes[e.op][e.t]) + 1
EndTask(e) == /\ e \in ex /\ Finished(e) /\ ex' = ex \ {e}
              /\ IF e.t \in won[e.op] \/ ost[e.op] # "run" THEN UNCHANGED <<won, ev>>   \* duplicate or zombie: result dropped
                 ELSE won' = [won EXCEPT ![e.op] = @ \cup {e.t}] /\ ev' = Append(ev, <<"taskend", e.op, e.t>>)
              /\ UNCHANGED <<meta, chunks, ost, nexec, phase>>
EndOp(o) == /\ ost[o] = "run" /\ won[o] = Tasks(o) /\ ost' = [ost EXCEPT ![o] = "done"]
            /\ ev' = Append(ev, <<"opend", o>>) /\ UNCHANGED <<meta, chunks, ex, won, nexec, phase>>
Crash == /\ MayCrash /\ phase = "first" /\ phase' = "crashed" /\ ex' = {}
         /\ UNCHANGED <<meta, chunks, ost, won, nexec, ev>>
\* plan.py already_computed: every output has metadata and ALL its chunks (nchunks_initialized = nchunks)
Complete(a) == a \in meta /\ CASE ResumeRule = "all" -> \A k \in KeysOf(a) : chunks[k] # None
                                 [] ResumeRule = "any" -> \E k \in KeysOf(a) : chunks[k] # None
                                 [] OTHER -> Cardinality({k \in KeysOf(a) : chunks[k] # None}) * CPS[a] = NChunks[a]
Resume == /\ phase = "crashed" /\ phase' = "resumed"
          /\ ost' = [o \in Ops |-> IF o # Create /\ \A a \in Outs(o) : Complete(a) THEN "skip" ELSE "idle"]
          /\ won' = [o \in Ops |-> {}] /\ nexec' = [o \in Ops |-> [t \in Tasks(o) |-> 0]] /\ ev' = <<>>
          /\ UNCHANGED <<meta, chunks, ex>>
Next == \/ \E o \in Ops : StartOp(o) \/ EndOp(o) \/ \E t \in Tasks(o) : Submit(o, t)
        \/ \E e \in ex : Step(e) \/ EndTask(e)
        \/ Crash \/ Resume
Spec == Init /\ [][Next]_vars
\* ---- properties
Quiescent == phase \in {"first", "resumed"} /\ (\A o \in Ops : Settled(o)) /\ ex = {}
SingleWriter == \A k \in AllKeys : Cardinality(Writers(k)) = 1                       \* C05 (static: one writer task per chunk)
Covered     == \A a \in Arrays : KeysOf(a) # {}                                      \* C05
NoBadRead   == \A e \in ex : e.seen = "good"                                         \* C07
FinalGood   == Quiescent => \A k \in AllKeys : Good(k)                                \* C05 / C06 / C09 / C11
\* known finding F13 (taint PrefilledTargetResume): a target that held data in every chunk BEFORE the computation looks
\* complete to resume, so its store operation is skipped and stale chunks stay.  Everything else must be good.
StaleByF13(k) == chunks[k] = Old /\ k[1] \notin Lazy /\ ost[Prod[k[1]]] = "skip"
FinalGoodModuloF13 == Quiescent => \A k \in AllKeys : Good(k) \/ StaleByF13(k)
NoWipe      == [][\A k \in AllKeys : chunks[k] # None => chunks'[k] # None]_vars     \* C09
OnlyGoodOverwrites == [][\A k \in AllKeys : chunks[k] = GoodVal(k) => chunks'[k] = GoodVal(k)]_vars   \* C06
SkipOnlyComplete == \A o \in Ops : ost[o] = "skip" => \A a \in Outs(o) : \A k \in KeysOf(a) : chunks[k] # None   \* C09
NoRecomputeOfComplete ==                                                              \* C09: complete arrays are not recomputed
   [][phase = "crashed" /\ phase' = "resumed" =>
        \A o \in Ops \ {Create} : (\A a \in Outs(o) : a \in meta /\ \A k \in KeysOf(a) : chunks[k] # None) => ost'[o] = "skip"]_vars
Count(s, x) == Cardinality({i \in 1..Len(s) : s[i] = x})
EventsOk == \A o \in Ops :                                                            \* C13
   /\ Count(ev, <<"opstart", o>>) <= 1 /\ Count(ev, <<"opend", o>>) <= 1
   /\ \A t \in Tasks(o) : Count(ev, <<"taskend", o, t>>) <= 1
   /\ \A i \in 1..Len(ev) : (ev[i][1] = "taskend" /\ ev[i][2] = o) =>
         (\E j \in 1..(i-1) : ev[j] = <<"opstart", o>>) /\ ~(\E j \in 1..(i-1) : ev[j] = <<"opend", o>>)
   /\ (ost[o] = "done" => \A t \in Tasks(o) : Count(ev, <<"taskend", o, t>>) = 1)
View == <<meta, chunks, ost, ex, won, nexec, phase>>
====
