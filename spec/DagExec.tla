---- MODULE DagExec ----
(* Execution of a finalized plan (plan.py FinalizedPlan.execute; pipeline.py visit_nodes / visit_node_generations;
   asyncio.py async_map_dag; local.py; blockwise.py apply_blockwise; plan.py create_zarr_array, already_computed).
   The plan is constant data; schedules, duplicates, the crash point and the resume are the behaviours. *)
EXTENDS Integers, Sequences, FiniteSets, TLC
CONSTANTS Ops, Create, Arrays, Lazy, Prod, NT, Reads, Writes, Sched, MaxExec, MayCrash,
          CreateFirst, Barrier, CreateMode, ResumeRule   \* design switches; cubed = TRUE, TRUE, "a", "all"
VARIABLES meta, chunks, ost, ex, won, nexec, phase, ev
vars == <<meta, chunks, ost, ex, won, nexec, phase, ev>>
None == <<"none", 0, "-">>
Old == <<"old", 0, "-">>
Tasks(o) == 1..NT[o]
WKeys(o, t) == {Writes[o][t][i] : i \in 1..Len(Writes[o][t])}
AllKeys == UNION {UNION {WKeys(o, t) : t \in Tasks(o)} : o \in Ops \ {Create}}
KeysOf(a) == {k \in AllKeys : k[1] = a}
Outs(o) == {a \in Arrays : Prod[a] = o}
RDeps(o) == {Prod[k[1]] : k \in UNION {Reads[o][t] : t \in Tasks(o)}}
Deps(o) == IF o = Create THEN {} ELSE RDeps(o) \cup (IF CreateFirst THEN {Create} ELSE {})
RECURSIVE Gen(_)
Gen(o) == IF Deps(o) = {} THEN 0 ELSE 1 + CHOOSE m \in 0..Cardinality(Ops) : (\A d \in Deps(o) : Gen(d) <= m) /\ (\E d \in Deps(o) : Gen(d) = m)
Settled(o) == ost[o] \in {"done", "skip"}
LazySeq == CHOOSE s \in [1..Cardinality(Lazy) -> Lazy] : \A i, j \in 1..Cardinality(Lazy) : i # j => s[i] # s[j]

Init == /\ meta = Arrays \ Lazy
        /\ chunks = [k \in AllKeys |-> IF k[1] \in Lazy THEN None ELSE Old]
        /\ ost = [o \in Ops |-> "idle"] /\ ex = {} /\ won = [o \in Ops |-> {}]
        /\ nexec = [o \in Ops |-> [t \in Tasks(o) |-> 0]] /\ phase = "first" /\ ev = <<>>
CanStart(o) == /\ ost[o] = "idle"
               /\ \A d \in Deps(o) : Settled(d)
               /\ (Barrier => IF Sched = "seq" THEN \A p \in Ops : ost[p] # "run"
                              ELSE \A p \in Ops : Gen(p) < Gen(o) => Settled(p))
StartOp(o) == /\ phase \in {"first", "resumed"} /\ CanStart(o) /\ ost' = [ost EXCEPT ![o] = "run"]
              /\ ev' = Append(ev, <<"opstart", o>>) /\ UNCHANGED <<meta, chunks, ex, won, nexec, phase>>
Submit(o, t) == /\ ost[o] = "run" /\ t \notin won[o] /\ nexec[o][t] < MaxExec
                /\ nexec' = [nexec EXCEPT ![o][t] = @ + 1]
                /\ ex' = ex \cup {[op |-> o, t |-> t, n |-> nexec[o][t] + 1, pc |-> 0, seen |-> "good"]}
                /\ UNCHANGED <<meta, chunks, ost, won, phase, ev>>
Val(e) == <<e.op, e.t, e.seen>>
GoodVal(k) == <<Prod[k[1]], CHOOSE t \in Tasks(Prod[k[1]]) : k \in WKeys(Prod[k[1]], t), "good">>
Good(k) == chunks[k] = GoodVal(k)
Step(e) ==
   /\ e \in ex
   /\ IF e.op = Create THEN
         LET a == LazySeq[e.t] IN
         /\ e.pc = 0
         /\ meta' = meta \cup {a}
         /\ chunks' = IF CreateMode = "w" THEN [k \in AllKeys |-> IF k[1] = a THEN None ELSE chunks[k]] ELSE chunks
         /\ ex' = (ex \ {e}) \cup {[e EXCEPT !.pc = 1]}
      ELSE IF e.pc = 0 THEN      \* read all input blocks (missing metadata or chunk => fill values => wrong data)
         LET bad == \E k \in Reads[e.op][e.t] : ~Good(k) \/ k[1] \notin meta IN
         /\ ex' = (ex \ {e}) \cup {[e EXCEPT !.pc = 1, !.seen = IF bad THEN "bad" ELSE "good"]}
         /\ UNCHANGED <<meta, chunks>>
      ELSE                        \* write output chunks one key at a time
         /\ e.pc <= Len(Writes[e.op][e.t])
         /\ LET k == Writes[e.op][e.t][e.pc] IN
            chunks' = [chunks EXCEPT ![k] = IF k[1] \in meta THEN Val(e) ELSE @]
         /\ ex' = (ex \ {e}) \cup {[e EXCEPT !.pc = @ + 1]}
         /\ UNCHANGED meta
   /\ UNCHANGED <<ost, won, nexec, phase, ev>>
Finished(e) == IF e.op = Create THEN e.pc = 1 ELSE e.pc = Len(Writes[e.op][e.t]) + 1
EndTask(e) == /\ e \in ex /\ Finished(e) /\ ex' = ex \ {e}
              /\ IF e.t \in won[e.op] \/ ost[e.op] # "run" THEN UNCHANGED <<won, ev>>   \* duplicate or zombie: result dropped
                 ELSE won' = [won EXCEPT ![e.op] = @ \cup {e.t}] /\ ev' = Append(ev, <<"taskend", e.op, e.t>>)
              /\ UNCHANGED <<meta, chunks, ost, nexec, phase>>
EndOp(o) == /\ ost[o] = "run" /\ won[o] = Tasks(o) /\ ost' = [ost EXCEPT ![o] = "done"]
            /\ ev' = Append(ev, <<"opend", o>>) /\ UNCHANGED <<meta, chunks, ex, won, nexec, phase>>
Crash == /\ MayCrash /\ phase = "first" /\ phase' = "crashed" /\ ex' = {}
         /\ UNCHANGED <<meta, chunks, ost, won, nexec, ev>>
Complete(a) == a \in meta /\ \A k \in KeysOf(a) : IF ResumeRule = "all" THEN chunks[k] # None ELSE TRUE
Resume == /\ phase = "crashed" /\ phase' = "resumed"
          /\ ost' = [o \in Ops |-> IF o # Create /\ \A a \in Outs(o) : Complete(a) THEN "skip" ELSE "idle"]
          /\ won' = [o \in Ops |-> {}] /\ nexec' = [o \in Ops |-> [t \in Tasks(o) |-> 0]] /\ ev' = <<>>
          /\ UNCHANGED <<meta, chunks, ex>>
Next == \/ \E o \in Ops : StartOp(o) \/ EndOp(o) \/ \E t \in Tasks(o) : Submit(o, t)
        \/ \E e \in ex : Step(e) \/ EndTask(e)
        \/ Crash \/ Resume
Spec == Init /\ [][Next]_vars
\* ---- properties
Quiescent == phase \in {"first", "resumed"} /\ (\A o \in Ops : Settled(o)) /\ ex = {}
NoBadRead   == \A e \in ex : e.seen = "good"                                  \* C07
FinalGood   == Quiescent => \A k \in AllKeys : Good(k)                        \* C06 / C09 / C11
NoWipe      == [][\A k \in AllKeys : chunks[k] # None => chunks'[k] # None]_vars   \* C09
OnlyGoodOverwrites == [][\A k \in AllKeys : chunks[k] = GoodVal(k) => chunks'[k] = GoodVal(k)]_vars         \* C06: duplicates rewrite the same value
SkipOnlyComplete == \A o \in Ops : ost[o] = "skip" => \A a \in Outs(o) : \A k \in KeysOf(a) : chunks[k] # None
Count(s, x) == Cardinality({i \in 1..Len(s) : s[i] = x})
EventsOk == \A o \in Ops :                                                     \* C13
   /\ Count(ev, <<"opstart", o>>) <= 1 /\ Count(ev, <<"opend", o>>) <= 1
   /\ \A t \in Tasks(o) : Count(ev, <<"taskend", o, t>>) <= 1
   /\ \A i \in 1..Len(ev) : (ev[i][1] = "taskend" /\ ev[i][2] = o) =>
         (\E j \in 1..(i-1) : ev[j] = <<"opstart", o>>) /\ ~(\E j \in 1..(i-1) : ev[j] = <<"opend", o>>)
   /\ (ost[o] = "done" => \A t \in Tasks(o) : Count(ev, <<"taskend", o, t>>) = 1)
View == <<meta, chunks, ost, ex, won, nexec, phase>>
====
