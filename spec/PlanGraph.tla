---- MODULE PlanGraph ----
(* How cubed represents lazy arrays, and why a lazy array's value can change (C10, C11, C20):
     core/array.py  gensym: array names "array-NNN" from a per-process counter       core/plan.py gensym: op names likewise
     core/plan.py   Plan._new / arrays_to_dag: plans are DAGs keyed by node NAME, merged with nx.compose_all (later wins)
     core/ops.py    _store_array: storing an uncomputed array re-targets it IN PLACE (source._zarray, the plan node's
                    target, the SHARED primitive-op object's target_array / write proxy)
     cloudpickle    a shipped array keeps its names; the receiver's counters know nothing about them
   Handles h[i] = [proc, name, zarr, val, nodes]; ops = heap of primitive-operation objects shared BY REFERENCE between plans;
   disk = what is in storage.  Compute(i) runs h[i]'s plan against disk and compares the result with the value fixed when
   the array was built (val); bad records a mismatch.
   The design as it is violates ValueFixed; TLC shows that EVERY violation goes through one of three listed patterns
   (ValueFixedModuloKnown):  taint "retarget-shared"  StoreLazy of an array whose name occurs in another live plan   (F8)
                             taint "retarget-twice"   a second lazy store of an already re-targeted array           (F9)
                             taint "name-collision"   plans merged that give one name to two different nodes        (F10)
                             taint "prefilled-resume" compute(resume=True) finds a user target already holding data   (F13)
   hist (history variable, hidden by View) records the API calls so that behaviours can be replayed against cubed; each record
   carries tb, the taint set BEFORE the call, so that a replay failure at step k is excused only by a taint that had arisen by
   step k (the taint after step k is the tb of step k+1, or the final taint). *)
EXTENDS Integers, Sequences, FiniteSets, TLC, Json
CONSTANTS Procs, MaxH, Targets, MaxSteps,
          WithResume    \* include compute(resume=True) as an API call
VARIABLES h, ops, actr, octr, disk, bad, taint, hist
vars == <<h, ops, actr, octr, disk, bad, taint, hist>>
\* value tokens: <<tag, id, args>>
Tok(tag, id, args) == <<tag, id, args>>
Fill == Tok("fill", 0, <<>>)
Missing == Tok("missing", 0, <<>>)
PId(p) == CHOOSE k \in 1..Cardinality(Procs) : \E f \in [1..Cardinality(Procs) -> Procs] : f[k] = p /\ \A a, b \in 1..Cardinality(Procs) : a < b => f[a] # f[b] /\ TRUE
\* zarr refs: <<kind, a, b>>: <<"virt", pid, n>>, <<"lazy", pid, n>>, <<"user", 0, t>>
Init == /\ h = <<>> /\ ops = <<>> /\ actr = [p \in Procs |-> 0] /\ octr = [p \in Procs |-> 0]
        /\ disk = [z \in {} |-> Fill] /\ bad = FALSE /\ taint = {} /\ hist = <<>>
\* disk is a sequence of <<ref, token>> pairs (last write wins)
Has(d, z) == z \in DOMAIN d
Get(d, z) == d[z]
Put(d, z, v) == [y \in DOMAIN d \cup {z} |-> IF y = z THEN v ELSE d[y]]
AName(n) == <<"array", n>>      \* the process is not part of a name: that is the design being modelled
OName(n) == <<"op", n>>
Merge(f, g) == [n \in DOMAIN f \cup DOMAIN g |-> IF n \in DOMAIN g THEN g[n] ELSE f[n]]   \* nx.compose_all: later wins
Node(kind, target, obj, out) == [kind |-> kind, target |-> target, obj |-> obj, out |-> out]
NoRef == <<"none", 0, 0>>
PIdOf == CHOOSE f \in [Procs -> 1..Cardinality(Procs)] : \A a, b \in Procs : a # b => f[a] # f[b]
NewInput(p, pid) ==
  /\ Len(h) < MaxH
  /\ LET n == actr[p] + 1  o == octr[p] + 1  nm == AName(n)  z == <<"virt", pid, n>> IN
     /\ actr' = [actr EXCEPT ![p] = n] /\ octr' = [octr EXCEPT ![p] = o]
     /\ h' = Append(h, [proc |-> p, name |-> nm, zarr |-> z, val |-> Tok("in", pid * 100 + n, <<>>),
                        nodes |-> (nm :> Node("array", z, 0, nm)) @@ (OName(o) :> Node("src", NoRef, 0, nm))])
     /\ hist' = Append(hist, [a |-> "input", p |-> pid, i |-> 0, j |-> 0, t |-> 0, tb |-> taint])
     /\ UNCHANGED <<ops, disk, bad, taint>>
Derive(p, pid, srcs) ==
  /\ Len(h) < MaxH /\ \A i \in 1..Len(srcs) : h[srcs[i]].proc = p
  /\ LET n == actr[p] + 1  o == octr[p] + 1  nm == AName(n)  z == <<"lazy", pid, n>>  k == Len(ops) + 1
         obj == [reads |-> [i \in 1..Len(srcs) |-> <<h[srcs[i]].name, h[srcs[i]].zarr>>], wtarget |-> z, fid |-> k]
         base == IF Len(srcs) = 1 THEN h[srcs[1]].nodes ELSE Merge(h[srcs[1]].nodes, h[srcs[2]].nodes)
     IN
     /\ actr' = [actr EXCEPT ![p] = n] /\ octr' = [octr EXCEPT ![p] = o]
     /\ ops' = Append(ops, obj)
     /\ h' = Append(h, [proc |-> p, name |-> nm, zarr |-> z, val |-> Tok("f", k, [i \in 1..Len(srcs) |-> h[srcs[i]].val]),
                        nodes |-> Merge(base, (nm :> Node("array", z, 0, nm)) @@ (OName(o) :> Node("op", NoRef, k, nm)))])
     /\ taint' = taint \cup (IF \/ (Len(srcs) = 2 /\ (\E n1 \in DOMAIN h[srcs[1]].nodes : n1 \in DOMAIN h[srcs[2]].nodes /\ h[srcs[1]].nodes[n1] # h[srcs[2]].nodes[n1]))
                                \/ nm \in DOMAIN base \/ OName(o) \in DOMAIN base      \* the fresh name is already taken by a shipped node
                             THEN {"name-collision"} ELSE {})
     /\ hist' = Append(hist, [a |-> "derive", p |-> pid, i |-> srcs[1], j |-> IF Len(srcs) = 2 THEN srcs[2] ELSE 0, t |-> 0, tb |-> taint])
     /\ UNCHANGED <<disk, bad>>
Ship(i, q) == /\ Len(h) < MaxH /\ h[i].proc # q /\ h' = Append(h, [h[i] EXCEPT !.proc = q])
              /\ hist' = Append(hist, [a |-> "ship", p |-> PIdOf[q], i |-> i, j |-> 0, t |-> 0, tb |-> taint])
              /\ UNCHANGED <<ops, actr, octr, disk, bad, taint>>
StoreLazy(i, t) ==
  /\ h[i].zarr[1] = "lazy"
  /\ LET nm == h[i].name  tgt == <<"user", 0, t>>
         prodobjs == {h[i].nodes[n].obj : n \in {m \in DOMAIN h[i].nodes : h[i].nodes[m].kind = "op" /\ h[i].nodes[m].out = nm}} IN
     /\ h' = [h EXCEPT ![i].zarr = tgt, ![i].nodes = [n \in DOMAIN h[i].nodes |-> IF n = nm THEN [h[i].nodes[n] EXCEPT !.target = tgt] ELSE h[i].nodes[n]]]
     /\ ops' = [k \in 1..Len(ops) |-> IF k \in prodobjs THEN [ops[k] EXCEPT !.wtarget = tgt] ELSE ops[k]]
     /\ taint' = taint \cup (IF \E j \in 1..Len(h) : j # i /\ nm \in DOMAIN h[j].nodes THEN {"retarget-shared"} ELSE {})
     /\ hist' = Append(hist, [a |-> "storelazy", p |-> 0, i |-> i, j |-> 0, t |-> t, tb |-> taint])
     /\ UNCHANGED <<actr, octr, disk, bad>>
\* store onto an already re-targeted source: second target replaces the first (store([x, x], [t1, t2]))
StoreAgain(i, t) ==
  /\ h[i].zarr[1] = "user" /\ h[i].zarr[3] # t
  /\ LET nm == h[i].name  tgt == <<"user", 0, t>>
         prodobjs == {h[i].nodes[n].obj : n \in {m \in DOMAIN h[i].nodes : h[i].nodes[m].kind = "op" /\ h[i].nodes[m].out = nm}} IN
     /\ h' = [h EXCEPT ![i].zarr = tgt, ![i].nodes = [n \in DOMAIN h[i].nodes |-> IF n = nm THEN [h[i].nodes[n] EXCEPT !.target = tgt] ELSE h[i].nodes[n]]]
     /\ ops' = [k \in 1..Len(ops) |-> IF k \in prodobjs THEN [ops[k] EXCEPT !.wtarget = tgt] ELSE ops[k]]
     /\ taint' = taint \cup {"retarget-twice"}
     /\ hist' = Append(hist, [a |-> "storeagain", p |-> 0, i |-> i, j |-> 0, t |-> t, tb |-> taint])
     /\ UNCHANGED <<actr, octr, disk, bad>>
RECURSIVE RunOps(_, _, _)
RunOps(nodes, todo, d) ==
  IF todo = {} THEN d
  ELSE LET ready == {n \in todo : \A r \in 1..Len(ops[nodes[n].obj].reads) :
                         ~(\E m \in todo : nodes[m].out = ops[nodes[n].obj].reads[r][1])} IN
       IF ready = {} THEN d
       ELSE LET n == CHOOSE x \in ready : TRUE
                ob == ops[nodes[n].obj]
                Rd(r) == LET z == ob.reads[r][2] IN
                         IF z[1] = "virt" THEN Tok("in", z[2] * 100 + z[3], <<>>) ELSE IF Has(d, z) THEN Get(d, z) ELSE Missing
                v == Tok("f", ob.fid, [r \in 1..Len(ob.reads) |-> Rd(r)])
            IN RunOps(nodes, todo \ {n}, Put(d, ob.wtarget, v))
RECURSIVE CreateAll(_, _)
CreateAll(zs, d) == IF zs = {} THEN d ELSE LET z == CHOOSE x \in zs : TRUE IN CreateAll(zs \ {z}, IF Has(d, z) THEN d ELSE Put(d, z, Fill))
Compute(i) ==
  /\ LET nodes == h[i].nodes
         lazies == {nodes[n].target : n \in {m \in DOMAIN nodes : nodes[m].kind = "array" /\ nodes[m].target[1] \in {"lazy", "user"}}}
         d1 == RunOps(nodes, {n \in DOMAIN nodes : nodes[n].kind = "op"}, CreateAll(lazies, disk))
         res == IF h[i].zarr[1] = "virt" THEN h[i].val ELSE IF Has(d1, h[i].zarr) THEN Get(d1, h[i].zarr) ELSE Missing
     IN /\ disk' = d1 /\ bad' = (bad \/ res # h[i].val)
        /\ hist' = Append(hist, [a |-> "compute", p |-> 0, i |-> i, j |-> 0, t |-> IF res # h[i].val THEN 1 ELSE 0, tb |-> taint])
  /\ UNCHANGED <<h, ops, actr, octr, taint>>
\* compute(resume=True): plan.py already_computed marks an operation as computed when its output is complete IN STORAGE, whoever
\* wrote it; such operations are skipped.  A target that already holds another array's values (an earlier store into the same
\* user target) therefore keeps them: taint "prefilled-resume" (finding F13, as in DagExec.StaleByF13).
RECURSIVE RunOpsResume(_, _, _)
RunOpsResume(nodes, todo, d) ==
  IF todo = {} THEN d
  ELSE LET ready == {n \in todo : \A r \in 1..Len(ops[nodes[n].obj].reads) :
                         ~(\E m \in todo : nodes[m].out = ops[nodes[n].obj].reads[r][1])} IN
       IF ready = {} THEN d
       ELSE LET n == CHOOSE x \in ready : TRUE
                ob == ops[nodes[n].obj]
                Rd(r) == LET z == ob.reads[r][2] IN
                         IF z[1] = "virt" THEN Tok("in", z[2] * 100 + z[3], <<>>) ELSE IF Has(d, z) THEN Get(d, z) ELSE Missing
                v == Tok("f", ob.fid, [r \in 1..Len(ob.reads) |-> Rd(r)])
                skip == Has(disk, ob.wtarget) /\ Get(disk, ob.wtarget) # Fill      \* complete before this computation started
            IN RunOpsResume(nodes, todo \ {n}, IF skip THEN d ELSE Put(d, ob.wtarget, v))
ComputeResume(i) ==
  /\ DOMAIN disk # {}      \* something was computed before (otherwise resume is a plain compute)
  /\ LET nodes == h[i].nodes
         lazies == {nodes[n].target : n \in {m \in DOMAIN nodes : nodes[m].kind = "array" /\ nodes[m].target[1] \in {"lazy", "user"}}}
         opn == {n \in DOMAIN nodes : nodes[n].kind = "op"}
         d1 == RunOpsResume(nodes, opn, CreateAll(lazies, disk))
         res == IF h[i].zarr[1] = "virt" THEN h[i].val ELSE IF Has(d1, h[i].zarr) THEN Get(d1, h[i].zarr) ELSE Missing
         \* a skipped operation whose stored output is not what a plain compute of this plan would leave there
         dplain == RunOps(nodes, opn, CreateAll(lazies, disk))
         stale == \E n \in opn : LET z == ops[nodes[n].obj].wtarget IN
                      z[1] = "user" /\ Has(disk, z) /\ Get(disk, z) # Fill /\ Get(disk, z) # Get(dplain, z)
     IN /\ disk' = d1 /\ bad' = (bad \/ res # h[i].val)
        /\ taint' = taint \cup (IF stale THEN {"prefilled-resume"} ELSE {})
        /\ hist' = Append(hist, [a |-> "computeresume", p |-> 0, i |-> i, j |-> 0, t |-> IF res # h[i].val THEN 1 ELSE 0, tb |-> taint])
  /\ UNCHANGED <<h, ops, actr, octr>>
Next == \/ \E p \in Procs : NewInput(p, PIdOf[p])
        \/ \E p \in Procs : \E i \in 1..Len(h) : Derive(p, PIdOf[p], <<i>>)
        \/ \E p \in Procs : \E i, j \in 1..Len(h) : Derive(p, PIdOf[p], <<i, j>>)
        \/ \E i \in 1..Len(h), q \in Procs : Ship(i, q)
        \/ \E i \in 1..Len(h), t \in Targets : StoreLazy(i, t) \/ StoreAgain(i, t)
        \/ \E i \in 1..Len(h) : Compute(i)
        \/ (WithResume /\ \E i \in 1..Len(h) : ComputeResume(i))
Bounded == Len(hist) < MaxSteps
BNext == Bounded /\ Next
Spec == Init /\ [][BNext]_vars
View == <<h, ops, actr, octr, disk, bad, taint, Len(hist)>>
\* behaviours for replay: printed when the history is complete (simulation mode evaluates this on every generated state)
Emit == Len(hist) = MaxSteps => PrintT("HIST" \o ToJson([hist |-> hist, taint |-> taint, bad |-> bad]))
ValueFixed == ~bad                                    \* C10 / C11 / C20 at the design level
ValueFixedModuloKnown == bad => taint # {}            \* every violation goes through a listed defect pattern
====
