---- MODULE Rechunk ----
(* What a valid rechunk plan is (C14) -- the planner's floating-point search (numpy.geomspace, consolidate_chunks) is NOT
   transcribed; the specification judges every plan the real planners return (TLC as evaluator, one verdict per case).
     vendor/rechunker/algorithm.py multistage_rechunking_plan        (irregular intermediates allowed)
     core/rechunk.py               multistage_regular_rechunking_plan (regular intermediates only)
     core/ops.py                   _rechunk_plan -> sequence of copy operations (copy_chunks, target_chunks), _rechunk
   case = [id, shape, src, tgt, itemsize, maxmem, regular,
           stages |-> << [read, int, write] >>,           \* planner output
           copies |-> << [copy, grid |-> <<boundaries per dim>>] >> ]   \* cubed's copy ops with the REAL grid they write
   Stage rules:   the last write is made of whole target chunks; int = element-wise min(read, write); every chunk size is
                  within 1..extent; itemsize * prod(read | int | write) <= maxmem.   (Reads need not be aligned with the
                  chunks they read -- a partial read is safe -- so no alignment is demanded of reads: an earlier draft that did
                  raised false alarms on correct plans and was dropped.)
   Copy rules:    every copy region starts and ends on a boundary of the grid it writes (so that no two tasks share a stored
                  chunk); itemsize * prod(copy) <= maxmem; the last copy op writes exactly the requested target chunks. *)
EXTENDS Integers, Sequences, FiniteSets, TLC, Json, IOUtils
Cases == JsonDeserialize(IOEnv.CASE_FILE)
RECURSIVE Prod(_, _)
Prod(s, i) == IF i > Len(s) THEN 1 ELSE s[i] * Prod(s, i + 1)
Min(a, b) == IF a < b THEN a ELSE b
Dims(c) == 1..Len(c.shape)
\* chunks `big` are made of whole chunks of `small` along every dimension (or span the dimension)
Whole(c, big, small) == \A d \in Dims(c) : big[d] >= c.shape[d] \/ big[d] % small[d] = 0
Fits(c, ch) == c.itemsize * Prod(ch, 1) <= c.maxmem
StageOk(c, k) == LET s == c.stages[k] IN
   /\ \A d \in Dims(c) : s.int[d] = Min(s.read[d], s.write[d])
   /\ Fits(c, s.read) /\ Fits(c, s.int) /\ Fits(c, s.write)
   /\ \A d \in Dims(c) : s.read[d] >= 1 /\ s.write[d] >= 1 /\ s.read[d] <= c.shape[d] /\ s.write[d] <= c.shape[d]
StagesVerdict(c) ==
   IF Len(c.stages) = 0 THEN "C14:NoStages"
   ELSE IF ~Whole(c, c.stages[Len(c.stages)].write, c.tgt) THEN "C14:LastWriteSplitsTargetChunks"
   ELSE IF \E k \in 1..Len(c.stages) : ~StageOk(c, k) THEN "C14:StageMalformedOrOverBudget"
   ELSE "ok"
\* copy regions of a copy op: multiples of copy[d] clipped to the shape; each boundary must be a grid boundary
OnGrid(g, x) == \E i \in 1..Len(g) : g[i] = x
CopyAligned(c, cp) == \A d \in Dims(c) :
   \A j \in 0..((c.shape[d] - 1) \div cp.copy[d]) : OnGrid(cp.grid[d], j * cp.copy[d])
CopiesVerdict(c) ==
   IF \E k \in 1..Len(c.copies) : ~Fits(c, [d \in Dims(c) |-> Min(c.copies[k].copy[d], c.shape[d])]) THEN "C14:CopyOverBudget"
   ELSE IF \E k \in 1..Len(c.copies) : ~CopyAligned(c, c.copies[k]) THEN "C14:CopySplitsWrittenChunks"
   ELSE IF Len(c.copies) > 0 /\ c.copies[Len(c.copies)].regular /\ c.copies[Len(c.copies)].tchunks # c.tgt THEN "C14:WrongFinalChunks"
   ELSE "ok"
Verdict(c) == IF c.kind = "stages" THEN StagesVerdict(c) ELSE CopiesVerdict(c)
VARIABLE n
Init == n = 0
Next == n < Len(Cases) /\ n' = n + 1 /\ PrintT(<<"VERDICT", Cases[n + 1].id, Verdict(Cases[n + 1]), 0>>)
Spec == Init /\ [][Next]_n
====
