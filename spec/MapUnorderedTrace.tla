---- MODULE MapUnorderedTrace ----
(* Trace validation of the MECHANISM specification MapUnordered.tla against executions of the real async_map_unordered
   (harness/vloop.py).  Unlike MapMonitor (which states the property and decides violations), this module asks whether the code
   still FOLLOWS the mechanism spec that TLC model-checks: each recorded event must be explained by the spec action of the same
   name, with the spec's own silent steps (Wake, skipped twin, IterEnd, declined Launch, empty Refill) in between.  A trace
   that cannot be explained is reported as DRIFT in the evidence (the model-checking result no longer covers the code), not as a
   violation of C08.
   Events: [ev |-> "att", f, ok]   an attempt of future f's retry wrapper finished
           [ev |-> "visit", f]     the loop body started for finished future f (it called f.exception())
           [ev |-> "launch", f, g] a backup g was submitted for pending future f
           [ev |-> "refill", n]    a new batch of n futures was submitted
           [ev |-> "raise"] / [ev |-> "return"]
   All traces of one TLC run share the constants (N, Retries, UseBackups, BatchSize, MinTasks). *)
EXTENDS MapUnordered, Json, IOUtils
Traces == JsonDeserialize(IOEnv.TRACE_FILE)
VARIABLES tid, l
tvars == <<vars, tid, l>>
T == Traces[tid]
E == T[l]
Has(e) == l <= Len(T) /\ T[l].ev = e
Consume == l' = l + 1 /\ UNCHANGED tid
Keep == UNCHANGED <<tid, l>>
TInit == Init /\ tid \in 1..Len(Traces) /\ l = 1
\* the run of consecutive "visit" events starting at position k
RECURSIVE VisitRun(_)
VisitRun(k) == IF k <= Len(T) /\ T[k].ev = "visit" THEN <<T[k].f>> \o VisitRun(k + 1) ELSE <<>>
SeqSet(s) == {s[i] : i \in 1..Len(s)}
RECURSIVE AnyOrder(_)
AnyOrder(S) == IF S = {} THEN <<>> ELSE LET x == CHOOSE y \in S : TRUE IN <<x>> \o AnyOrder(S \ {x})
\* ---- logged actions
TAtt == Has("att") /\ (IF E.ok THEN AttemptOk(E.f) ELSE AttemptFail(E.f)) /\ Consume
TVisit == Has("visit") /\ pc = "iter" /\ queue # <<>> /\ Head(queue) = E.f /\ ~(FixTwins /\ E.f \in skip) /\ Iter /\ Consume
TLaunch == /\ Has("launch") /\ pc = "launch" /\ E.g = nfut + 1 /\ E.f \in pending /\ E.f \notin DOMAIN backups
           /\ Thresholds /\ ~KeyErr(E.f) /\ nfut < MaxFut
           /\ nfut' = E.g /\ inp' = [inp EXCEPT ![E.g] = inp[E.f]] /\ isBackup' = [isBackup EXCEPT ![E.g] = TRUE]
           /\ startT' = startT \cup {E.g} /\ pending' = pending \cup {E.g}
           /\ backups' = [h \in DOMAIN backups \cup {E.f, E.g} |-> IF h = E.f THEN E.g ELSE IF h = E.g THEN E.f ELSE backups[h]]
           /\ UNCHANGED <<unsent, fst, att, endT, pc, queue, out, skip>> /\ Consume
TRefill == Has("refill") /\ pc = "refill" /\ BatchSize # 0 /\ Cardinality(pending) < BatchSize /\ unsent # <<>>
           /\ Len(Batch(unsent)) = E.n /\ Refill /\ Consume
TRaise == Has("raise") /\ pc = "raised" /\ UNCHANGED vars /\ Consume
TReturn == Has("return") /\ Finish /\ Consume
\* ---- silent steps of the spec
SWake == /\ pc = "wait" /\ pending # {}
         /\ LET fin == {f \in pending : fst[f] # "run"}
                run == VisitRun(l) IN
            /\ SeqSet(run) \subseteq fin
            /\ queue' = run \o AnyOrder(fin \ SeqSet(run)) /\ pending' = pending \ fin /\ pc' = "iter"
         /\ UNCHANGED <<unsent, nfut, inp, isBackup, fst, att, startT, endT, backups, out, skip>> /\ Keep
SSkip == pc = "iter" /\ queue # <<>> /\ FixTwins /\ Head(queue) \in skip /\ Iter /\ Keep
SIterEnd == IterEnd /\ Keep
SLaunchNo == /\ pc = "launch" /\ ~Has("launch")
             /\ ~(\E f \in pending : f \notin DOMAIN backups /\ KeyErr(f))
             /\ pc' = "refill" /\ UNCHANGED <<unsent, nfut, inp, isBackup, fst, att, pending, startT, endT, backups, queue, out, skip>> /\ Keep
SRefillNo == pc = "refill" /\ ~(BatchSize # 0 /\ Cardinality(pending) < BatchSize /\ unsent # <<>>) /\ Refill /\ Keep
TNext == TAtt \/ TVisit \/ TLaunch \/ TRefill \/ TRaise \/ TReturn \/ SWake \/ SSkip \/ SIterEnd \/ SLaunchNo \/ SRefillNo
TSpec == TInit /\ [][TNext]_tvars
Explained == l = Len(T) + 1 => PrintT(<<"VERDICT", tid, "ok", l>>)
\* the mechanism spec's own invariants are evaluated on every state of the explanation as well
====
