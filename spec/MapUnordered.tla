---- MODULE MapUnordered ----
(* cubed/runtime/asyncio.py async_map_unordered + retry wrapper (local.py threads_create_futures_func),
   one action per statement group of the real loop. *)
EXTENDS Integers, Sequences, FiniteSets, TLC, SequencesExt
CONSTANTS N,            \* inputs 1..N
          Retries,      \* retries: each submission makes <= Retries+1 attempts
          UseBackups,   \* BOOLEAN
          BatchSize,    \* 0 = no batching
          MinTasks,     \* should_launch_backup min_tasks (10 in the code)
          FixStartTimes,\* model of repair 1: start_times.update instead of rebinding
          FixTwins,     \* model of repair 2: skip a finished twin that has been superseded
          KeepPairing   \* cubed = TRUE: a failed attempt whose twin is still alive stays paired with it.  FALSE (design switch,
                        \* seed C08-d): the pairing is forgotten, so the survivor may get another backup -> TwoSubmissions
MaxFut == 2 * N
Fut == 1..MaxFut
VARIABLES unsent,    \* inputs not yet submitted (sequence)
          nfut,      \* number of futures created
          inp,       \* inp[f]: input of future f
          isBackup,  \* isBackup[f]
          fst,       \* environment: "run" | "ok" | "fail" | "cancel"
          att,       \* attempts made by f's retry wrapper
          pending, startT, endT, backups,  \* locals of the real function (startT/endT: key sets)
          pc, queue, \* control: where the loop is, and the finished futures still to iterate over
          out,       \* sequence of delivered inputs (yield)
          skip       \* repair 2 bookkeeping
vars == <<unsent, nfut, inp, isBackup, fst, att, pending, startT, endT, backups, pc, queue, out, skip>>

Batch(s) == IF BatchSize = 0 THEN s ELSE SubSeq(s, 1, IF Len(s) < BatchSize THEN Len(s) ELSE BatchSize)
Rest(s)  == IF BatchSize = 0 THEN <<>> ELSE SubSeq(s, Len(Batch(s)) + 1, Len(s))
NewFuts(b) == (nfut + 1)..(nfut + Len(b))

Init == LET all == [i \in 1..N |-> i] b == Batch(all) IN
  /\ unsent = Rest(all) /\ nfut = Len(b)
  /\ inp = [f \in Fut |-> IF f <= Len(b) THEN b[f] ELSE 0]
  /\ isBackup = [f \in Fut |-> FALSE]
  /\ fst = [f \in Fut |-> "run"] /\ att = [f \in Fut |-> 0]
  /\ pending = 1..Len(b) /\ startT = 1..Len(b) /\ endT = {} /\ backups = [f \in {} |-> 0]
  /\ pc = "wait" /\ queue = <<>> /\ out = <<>> /\ skip = {}

\* ---- environment: attempts of the retry wrapper running in the pool
AttemptOk(f) == /\ f <= nfut /\ fst[f] = "run" /\ att[f] <= Retries
                /\ att' = [att EXCEPT ![f] = @ + 1] /\ fst' = [fst EXCEPT ![f] = "ok"]
                /\ UNCHANGED <<unsent, nfut, inp, isBackup, pending, startT, endT, backups, pc, queue, out, skip>>
AttemptFail(f) == /\ f <= nfut /\ fst[f] = "run" /\ att[f] <= Retries
                  /\ att' = [att EXCEPT ![f] = @ + 1]
                  /\ fst' = [fst EXCEPT ![f] = IF att[f] + 1 = Retries + 1 THEN "fail" ELSE "run"]
                  /\ UNCHANGED <<unsent, nfut, inp, isBackup, pending, startT, endT, backups, pc, queue, out, skip>>

\* ---- asyncio.wait returns every pending future that is done, iterated in arbitrary (set) order;
\*      with timeout=2 it may also return nothing
Wake == /\ pc = "wait" /\ pending # {}
        /\ LET fin == {f \in pending : fst[f] # "run"} IN
           \E q \in {s \in [1..Cardinality(fin) -> fin] : \A a, b \in 1..Cardinality(fin) : a # b => s[a] # s[b]} :
              /\ queue' = q /\ pending' = pending \ fin /\ pc' = "iter"
        /\ UNCHANGED <<unsent, nfut, inp, isBackup, fst, att, startT, endT, backups, out, skip>>
Finish == /\ pc = "wait" /\ pending = {} /\ pc' = "done" /\ UNCHANGED <<unsent, nfut, inp, isBackup, fst, att, pending, startT, endT, backups, queue, out, skip>>

HasTwin(f) == f \in DOMAIN backups
\* one iteration of `for task in finished`
Iter == /\ pc = "iter" /\ queue # <<>>
        /\ LET f == Head(queue) IN
           IF FixTwins /\ f \in skip THEN
              /\ queue' = Tail(queue) /\ UNCHANGED <<pc, out, endT, backups, pending, fst, skip>>
           ELSE IF fst[f] = "fail" THEN
              IF HasTwin(f) /\ fst[backups[f]] \in {"run", "ok"}
              THEN /\ queue' = Tail(queue) /\ UNCHANGED <<pc, out, endT, pending, fst, skip>>   \* continue
                   /\ backups' = IF KeepPairing THEN backups ELSE [h \in DOMAIN backups \ {f, backups[f]} |-> backups[h]]
              ELSE /\ pc' = "raised" /\ UNCHANGED <<queue, out, endT, backups, pending, fst, skip>>
           ELSE \* result (a cancelled future cannot be in finished: it was removed from pending first)
              /\ endT' = endT \cup {f}
              /\ out' = Append(out, inp[f])
              /\ queue' = Tail(queue)
              /\ IF UseBackups /\ HasTwin(f)
                 THEN LET b == backups[f] IN
                      /\ pending' = pending \ {b}
                      /\ backups' = [g \in DOMAIN backups \ {f, b} |-> backups[g]]
                      /\ fst' = [fst EXCEPT ![b] = IF @ = "run" THEN "cancel" ELSE @]
                      /\ skip' = skip \cup {b}
                 ELSE UNCHANGED <<pending, backups, fst, skip>>
              /\ UNCHANGED pc
        /\ UNCHANGED <<unsent, nfut, inp, isBackup, att, startT>>
IterEnd == /\ pc = "iter" /\ queue = <<>> /\ pc' = (IF UseBackups THEN "launch" ELSE "refill")
           /\ UNCHANGED <<unsent, nfut, inp, isBackup, fst, att, pending, startT, endT, backups, queue, out, skip>>

\* should_launch_backup(task, now, start_times, end_times): reads start_times[task] and start_times[t] for t in end_times
\* once the size thresholds are passed; the timing comparison itself is left to the environment (oracle)
Thresholds == /\ Cardinality(startT) >= MinTasks
              /\ Cardinality(endT) > ((Cardinality(startT) + 1) \div 2) - 1
KeyErr(f) == Thresholds /\ (f \notin startT \/ ~(endT \subseteq startT))
Launch == /\ pc = "launch"
          /\ \/ \E f \in pending : f \notin DOMAIN backups /\ KeyErr(f) /\ pc' = "crashed"
                   /\ UNCHANGED <<unsent, nfut, inp, isBackup, fst, att, pending, startT, endT, backups, queue, out, skip>>
             \/ \E f \in pending : /\ f \notin DOMAIN backups /\ Thresholds /\ ~KeyErr(f) /\ nfut < MaxFut
                   /\ LET g == nfut + 1 IN
                      /\ nfut' = g /\ inp' = [inp EXCEPT ![g] = inp[f]] /\ isBackup' = [isBackup EXCEPT ![g] = TRUE]
                      /\ startT' = startT \cup {g} /\ pending' = pending \cup {g}
                      /\ backups' = [h \in DOMAIN backups \cup {f, g} |-> IF h = f THEN g ELSE IF h = g THEN f ELSE backups[h]]
                   /\ UNCHANGED <<unsent, fst, att, endT, pc, queue, out, skip>>
             \/ /\ ~(\E f \in pending : f \notin DOMAIN backups /\ KeyErr(f))
                /\ pc' = "refill" /\ UNCHANGED <<unsent, nfut, inp, isBackup, fst, att, pending, startT, endT, backups, queue, out, skip>>
Refill == /\ pc = "refill"
          /\ IF BatchSize # 0 /\ Cardinality(pending) < BatchSize /\ unsent # <<>>
             THEN LET b == Batch(unsent) nf == NewFuts(b) IN
                  /\ unsent' = Rest(unsent) /\ nfut' = nfut + Len(b)
                  /\ inp' = [f \in Fut |-> IF f \in nf THEN b[f - nfut] ELSE inp[f]]
                  /\ pending' = pending \cup nf
                  /\ startT' = IF FixStartTimes THEN startT \cup nf ELSE nf
             ELSE UNCHANGED <<unsent, nfut, inp, pending, startT>>
          /\ pc' = "wait"
          /\ UNCHANGED <<isBackup, fst, att, endT, backups, queue, out, skip>>

Next == (\E f \in Fut : AttemptOk(f) \/ AttemptFail(f)) \/ Wake \/ Finish \/ Iter \/ IterEnd \/ Launch \/ Refill
Spec == Init /\ [][Next]_vars /\ WF_vars(Wake \/ Finish \/ Iter \/ IterEnd \/ Refill)
             /\ WF_vars(pc = "launch" /\ Launch) /\ \A f \in Fut : WF_vars(AttemptOk(f) \/ AttemptFail(f))

Count(s, x) == Cardinality({k \in 1..Len(s) : s[k] = x})
Subs(i) == {f \in 1..nfut : inp[f] = i}
\* ---- C08
NoCrash == pc # "crashed"
AtMostOnce == \A i \in 1..N : Count(out, i) <= 1
DoneMeansAll == pc = "done" => \A i \in 1..N : Count(out, i) = 1 /\ \E f \in Subs(i) : fst[f] = "ok"
RaiseMeansLost == pc = "raised" => \E i \in 1..N : Subs(i) # {} /\ \A f \in Subs(i) : fst[f] = "fail"
TwoSubmissions == \A i \in 1..N : Cardinality(Subs(i)) <= 2 /\ Cardinality({f \in Subs(i) : isBackup[f]}) <= 1
AttemptBound == \A f \in Fut : att[f] <= Retries + 1
Terminates == <>(pc \in {"done", "raised", "crashed"})
====
