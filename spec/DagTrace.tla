---- MODULE DagTrace ----
EXTENDS Integers, Sequences, FiniteSets, TLC, Json, IOUtils
J == JsonDeserialize(IOEnv.TRACE_FILE)
Plan == J.plan
Log == J.events
OpNames == {Plan.ops[i].name : i \in 1..Len(Plan.ops)}
OpRec(o) == Plan.ops[CHOOSE i \in 1..Len(Plan.ops) : Plan.ops[i].name = o]
SeqSet(s) == {s[i] : i \in 1..Len(s)}
Deps(o) == SeqSet(OpRec(o).deps)
Produced == {Plan.arrays[i].name : i \in 1..Len(Plan.arrays)}
Prod(a) == Plan.arrays[CHOOSE i \in 1..Len(Plan.arrays) : Plan.arrays[i].name = a].prod
VARIABLES l, phase, started, ended, ntask, open
vars == <<l, phase, started, ended, ntask, open>>
Init == l = 1 /\ phase = "idle" /\ started = {} /\ ended = {} /\ ntask = [o \in OpNames |-> 0] /\ open = {}
E == Log[l]
Is(e) == l <= Len(Log) /\ E.ev = e /\ l' = l + 1
ComputeStart == Is("computestart") /\ phase = "idle" /\ phase' = "run" /\ UNCHANGED <<started, ended, ntask, open>>
ComputeEnd == Is("computeend") /\ phase = "run" /\ ended = started /\ phase' = "done" /\ UNCHANGED <<started, ended, ntask, open>>
OpStart == Is("opstart") /\ phase = "run" /\ E.op \in OpNames /\ E.op \notin started
           /\ (E.op # "create-arrays" /\ "create-arrays" \in OpNames => "create-arrays" \in ended)   \* C07: array creation runs first
           /\ started' = started \cup {E.op} /\ UNCHANGED <<phase, ended, ntask, open>>
TaskEnd == Is("taskend") /\ E.op \in started \ ended                       \* C13: between start and end
           /\ ntask' = [ntask EXCEPT ![E.op] = @ + E.n] /\ UNCHANGED <<phase, started, ended, open>>
OpEnd == Is("opend") /\ E.op \in started \ ended
         /\ ntask[E.op] = OpRec(E.op).nt                                   \* C13: advertised = delivered
         /\ ~(\E w \in open : Prod(w[2]) = E.op)                           \* every set of its outputs has returned
         /\ ended' = ended \cup {E.op} /\ UNCHANGED <<phase, started, ntask, open>>
SetCall == Is("setcall") /\ (E.data => Prod(E.arr) \in started \ ended)     \* data written only while the producer runs
           /\ open' = open \cup {<<E.id, E.arr>>} /\ UNCHANGED <<phase, started, ended, ntask>>
SetRet == Is("setret") /\ open' = open \ {<<E.id, E.arr>>} /\ UNCHANGED <<phase, started, ended, ntask>>
GetCall == Is("getcall") /\ (E.data => Prod(E.arr) \in ended)               \* C07: no read before the producer ended
           /\ UNCHANGED <<phase, started, ended, ntask, open>>
GetRet == Is("getret") /\ (E.data => E.hit)                                 \* C07: never falls back to fill values
          /\ UNCHANGED <<phase, started, ended, ntask, open>>
Next == ComputeStart \/ ComputeEnd \/ OpStart \/ TaskEnd \/ OpEnd \/ SetCall \/ SetRet \/ GetCall \/ GetRet
Spec == Init /\ [][Next]_vars
Accepted == TLCGet("stats").diameter - 1 = Len(Log)
Stuck == IF TLCGet("stats").diameter - 1 = Len(Log) THEN TRUE ELSE PrintT(<<"REJECTED at", TLCGet("stats").diameter, Log[TLCGet("stats").diameter]>>)
====
