---- MODULE DagTrace ----
(* Trace monitor for executions of a finalized plan on cubed's REAL executors (single-threaded, threads, processes),
   recorded at the Zarr store boundary (LocalStore get/set call and return events, ordered by the system-wide
   monotonic clock) and at the callback boundary.  It checks what C07 and C13 state, per computation.

   Rules come from the property statements and from who WRITES what (array -> producer, taken from the operations'
   write targets and the store records), never from the plan's dependency edges:
     C07  array creation ended before any other operation starts;
          a data chunk of a produced array is read only after its producer's operation-end, and the read hits;
          a data chunk of a produced array is written only while its producer runs (a later write is tolerated only
          if byte-identical to what the key holds: backup twins are never cancelled);
          the producer's operation-end comes after the return of every write of its outputs;
          metadata of a lazily created array is found once array creation ended.
     C13  one compute-start first, one compute-end last; per operation one start before and one end after all of its
          task-end notifications; delivered task count = advertised num_tasks; every runnable operation ran.
   The monitor is TOTAL: the first clause a trace breaks is its verdict.

   Input: JSON array of traces [plan |-> [ops: <<[name, nt, nmap, computed]>>, arrays: <<[name, prod, lazy]>>, total],
                                events |-> << [ev, op, arr, key, data, hit, n, id, h] >>]                                *)
EXTENDS Integers, Sequences, FiniteSets, TLC, Json, IOUtils
CONSTANT Focus   \* "C07" | "C13" | "all": which property's clauses are evaluated (a check never reports another property's clause)
P7 == Focus \in {"C07", "all"}
P13 == Focus \in {"C13", "all"}
Traces == JsonDeserialize(IOEnv.TRACE_FILE)
VARIABLES tid, l, phase, started, ended, ntask, open, held, landed, verdict
vars == <<tid, l, phase, started, ended, ntask, open, held, landed, verdict>>
T == Traces[tid]
Plan == T.plan
Log == T.events
E == Log[l]
SeqSet(s) == {s[i] : i \in 1..Len(s)}
OpNames == {Plan.ops[i].name : i \in 1..Len(Plan.ops)}
OpRec(o) == Plan.ops[CHOOSE i \in 1..Len(Plan.ops) : Plan.ops[i].name = o]
Computed == {o \in OpNames : OpRec(o).computed}
ArrNames == {Plan.arrays[i].name : i \in 1..Len(Plan.arrays)}
ArrRec(a) == Plan.arrays[CHOOSE i \in 1..Len(Plan.arrays) : Plan.arrays[i].name = a]
\* produced by this computation: has a producer operation that is part of the plan
Produced(a) == a \in ArrNames /\ ArrRec(a).prod \in OpNames
Prod(a) == ArrRec(a).prod
RECURSIVE SumNT(_)
SumNT(i) == IF i = 0 THEN 0 ELSE Plan.ops[i].nt + SumNT(i - 1)
HasCreate == "create-arrays" \in OpNames
Init == /\ tid \in 1..Len(Traces) /\ l = 1 /\ phase = "idle" /\ started = {} /\ ended = {}
        /\ ntask = [o \in OpNames |-> 0] /\ open = {} /\ held = [k \in {} |-> ""] /\ landed = [k \in {} |-> ""] /\ verdict = "ok"
Fail(c) == verdict' = c /\ UNCHANGED <<tid, l, phase, started, ended, ntask, open, held, landed>>
Adv == l' = l + 1 /\ UNCHANGED <<tid, verdict>>
Ran(o) == o \in ended \/ o \in Computed        \* settled: finished in this computation, or skipped as already computed
Step ==
  /\ verdict = "ok" /\ l <= Len(Log)
  /\ CASE E.ev = "computestart" ->
            IF P13 /\ (phase # "idle") THEN Fail("C13:ComputeStartOnce")
            ELSE IF P13 /\ (\E i \in 1..Len(Plan.ops) : Plan.ops[i].nmap # Plan.ops[i].nt) THEN Fail("C13:AdvertisedVsIterable")
            ELSE IF P13 /\ (Plan.total >= 0 /\ Plan.total # SumNT(Len(Plan.ops))) THEN Fail("C13:PlanTotal")
            ELSE phase' = "run" /\ Adv /\ UNCHANGED <<started, ended, ntask, open, held, landed>>
       [] E.ev = "computeend" ->
            IF P13 /\ (phase # "run") THEN Fail("C13:ComputeEndOrder")
            ELSE IF P13 /\ (started # ended) THEN Fail("C13:ComputeEndBeforeOpEnd")
            ELSE IF P13 /\ (\E o \in OpNames \ Computed : o \notin ended) THEN Fail("C13:OperationNeverRan")
            ELSE phase' = "done" /\ Adv /\ UNCHANGED <<started, ended, ntask, open, held, landed>>
       [] E.ev = "opstart" ->
            IF P13 /\ (phase # "run") THEN Fail("C13:EventOutsideCompute")
            ELSE IF P13 /\ (E.op \notin OpNames) THEN Fail("C13:UnknownOperation")
            ELSE IF P13 /\ (E.op \in started) THEN Fail("C13:OpStartOnce")
            ELSE IF P13 /\ (E.op \in Computed) THEN Fail("C09:ComputedOperationRan")
            ELSE IF P7 /\ (E.op # "create-arrays" /\ HasCreate /\ ~Ran("create-arrays")) THEN Fail("C07:CreateArraysFirst")
            ELSE started' = started \cup {E.op} /\ Adv /\ UNCHANGED <<phase, ended, ntask, open, held, landed>>
       [] E.ev = "taskend" ->
            IF P13 /\ (E.op \notin started \ ended) THEN Fail("C13:TaskEndOutsideOperation")
            ELSE ntask' = [ntask EXCEPT ![E.op] = @ + E.n] /\ Adv /\ UNCHANGED <<phase, started, ended, open, held, landed>>
       [] E.ev = "opend" ->
            IF P13 /\ (E.op \notin started \ ended) THEN Fail("C13:OpEndOrder")
            ELSE IF P13 /\ (ntask[E.op] # OpRec(E.op).nt) THEN Fail("C13:TaskCountMismatch")
            \* every write of its outputs has returned -- except a DUPLICATE execution (backup twin, retry) still writing bytes
            \* identical to what already landed in that key (twins are deliberately never cancelled on the worker)
            ELSE IF P7 /\ (\E w \in open : Produced(w[2]) /\ Prod(w[2]) = E.op
                              /\ ~(<<w[2], w[3]>> \in DOMAIN landed /\ landed[<<w[2], w[3]>>] = w[4])) THEN Fail("C07:OpEndBeforeWriteReturned")
            ELSE ended' = ended \cup {E.op} /\ Adv /\ UNCHANGED <<phase, started, ntask, open, held, landed>>
       [] E.ev = "setcall" ->
            IF P7 /\ (E.data /\ Produced(E.arr) /\ Prod(E.arr) \notin started) THEN Fail("C07:WriteBeforeProducerStarted")
            ELSE IF P7 /\ (E.data /\ Produced(E.arr) /\ Prod(E.arr) \in ended
                    /\ ~(<<E.arr, E.key>> \in DOMAIN held /\ held[<<E.arr, E.key>>] = E.h)) THEN Fail("C07:LateWriteDiffers")
            ELSE /\ open' = open \cup {<<E.id, E.arr, E.key, E.h>>}
                 /\ held' = IF E.data THEN [k \in DOMAIN held \cup {<<E.arr, E.key>>} |-> IF k = <<E.arr, E.key>> THEN E.h ELSE held[k]] ELSE held
                 /\ Adv /\ UNCHANGED <<phase, started, ended, ntask, landed>>
       [] E.ev = "setret" ->
            /\ open' = {w \in open : w[1] # E.id}
            /\ landed' = IF E.data THEN [k \in DOMAIN landed \cup {<<E.arr, E.key>>} |-> IF k = <<E.arr, E.key>> THEN E.h ELSE landed[k]] ELSE landed
            /\ Adv /\ UNCHANGED <<phase, started, ended, ntask, held>>
       [] E.ev = "getcall" ->
            IF P7 /\ (E.data /\ Produced(E.arr) /\ ~Ran(Prod(E.arr))) THEN Fail("C07:ReadBeforeProducerEnded")
            ELSE Adv /\ UNCHANGED <<phase, started, ended, ntask, open, held, landed>>
       [] E.ev = "getret" ->
            IF P7 /\ (E.data /\ Produced(E.arr) /\ ~E.hit) THEN Fail("C07:ReadFellBackToFill")
            ELSE IF P7 /\ (~E.data /\ E.arr \in ArrNames /\ ArrRec(E.arr).lazy /\ HasCreate /\ Ran("create-arrays")
                    /\ E.key = "zarr.json" /\ ~E.hit) THEN Fail("C07:MetadataMissingAfterCreate")
            ELSE Adv /\ UNCHANGED <<phase, started, ended, ntask, open, held, landed>>
       [] OTHER -> Fail("UnknownEvent")
Finish == /\ verdict = "ok" /\ l = Len(Log) + 1
          /\ IF P13 /\ (phase # "done") THEN Fail("C13:NoComputeEnd") ELSE (l' = l + 1 /\ UNCHANGED <<tid, phase, started, ended, ntask, open, held, landed, verdict>>)
Next == Step \/ Finish
Spec == Init /\ [][Next]_vars
Final == verdict # "ok" \/ l = Len(Log) + 2
Report == Final => PrintT(<<"VERDICT", tid, verdict, l>>)
====
