---- MODULE MC3 ----
EXTENDS DagExec
\* smaller plan: create -> P (2 tasks -> A) -> S (2 tasks, store A into pre-populated target T; task 1 writes 2 chunks)
MCOps == {"create", "P", "S"}
MCArrays == {"A", "T"}
MCLazy == {"A", "T"}
MCProd == [a \in MCArrays |-> CASE a = "A" -> "P" [] a = "T" -> "S"]
MCNT == [o \in MCOps |-> CASE o = "create" -> 2 [] o = "P" -> 2 [] o = "S" -> 2]
MCReads == [o \in MCOps |-> CASE o = "S" -> [t \in 1..2 |-> {<<"A", t>>}] [] OTHER -> [t \in 1..2 |-> {}]]
MCWrites == [o \in MCOps |-> CASE o = "P" -> [t \in 1..2 |-> << <<"A", t>> >>]
                               [] o = "S" -> [t \in 1..2 |-> IF t = 1 THEN << <<"T", 1>>, <<"T", 2>> >> ELSE << <<"T", 3>> >>]
                               [] OTHER -> [t \in 1..2 |-> <<>>]]
====
