---- MODULE MapMonitor ----
(* Reference-level monitor for C08: what a user of the parallel map may rely on, evaluated on traces recorded from
   the real cubed.runtime.asyncio.async_map_unordered (+ the real retry wrapper) running under a scripted
   environment (harness/vloop.py).  The monitor is TOTAL: it never blocks; the first clause of the property that a
   trace breaks is recorded in `verdict` and printed.  MapUnordered.tla (mechanism level) is model-checked against the
   same clauses (its invariants NoCrash, AtMostOnce, DoneMeansAll, RaiseMeansLost, TwoSubmissions, AttemptBound).

   Trace file: JSON array of [n, retries, events]; every event is a record with all of ev, f, i, b, ok. *)
EXTENDS Integers, Sequences, FiniteSets, TLC, Json, IOUtils
Traces == JsonDeserialize(IOEnv.TRACE_FILE)
VARIABLES tid, l, inpOf, isB, fst, att, yc, ended, verdict
vars == <<tid, l, inpOf, isB, fst, att, yc, ended, verdict>>
T == Traces[tid]
E == T.events[l]
Futs == DOMAIN inpOf
Subs(i) == {f \in Futs : inpOf[f] = i}
Init == /\ tid \in 1..Len(Traces) /\ l = 1
        /\ inpOf = [f \in {} |-> 0] /\ isB = [f \in {} |-> FALSE] /\ fst = [f \in {} |-> "run"] /\ att = [f \in {} |-> 0]
        /\ yc = [i \in 1..T.n |-> 0] /\ ended = "no" /\ verdict = "ok"
Ext(fn, k, v) == [x \in DOMAIN fn \cup {k} |-> IF x = k THEN v ELSE fn[x]]
Lost == \E i \in 1..T.n : Subs(i) # {} /\ \A f \in Subs(i) : fst[f] = "fail"
Fail(c) == /\ verdict' = c /\ UNCHANGED <<tid, inpOf, isB, fst, att, yc, ended>> /\ l' = l
Step ==
  /\ verdict = "ok" /\ ended = "no" /\ l <= Len(T.events)
  /\ CASE E.ev = "Submit" ->
            IF E.f \in Futs THEN Fail("FutureReused")
            ELSE IF Cardinality(Subs(E.i)) >= 2 THEN Fail("TwoSubmissions")
            ELSE IF E.b /\ (\E g \in Subs(E.i) : isB[g]) THEN Fail("OneBackup")
            ELSE IF E.b /\ Subs(E.i) = {} THEN Fail("BackupWithoutOriginal")
            ELSE IF yc[E.i] > 0 THEN Fail("SubmitAfterDelivery")
            ELSE /\ inpOf' = Ext(inpOf, E.f, E.i) /\ isB' = Ext(isB, E.f, E.b) /\ fst' = Ext(fst, E.f, "run")
                 /\ att' = Ext(att, E.f, 0) /\ l' = l + 1 /\ UNCHANGED <<tid, yc, ended, verdict>>
       [] E.ev = "Attempt" ->
            IF att[E.f] >= T.retries + 1 THEN Fail("AttemptBound")
            ELSE /\ att' = [att EXCEPT ![E.f] = @ + 1] /\ l' = l + 1 /\ UNCHANGED <<tid, inpOf, isB, fst, yc, ended, verdict>>
       [] E.ev = "Done" ->
            IF ~E.ok /\ att[E.f] # T.retries + 1 THEN Fail("RetryBudgetUnused")   \* gave up before retries+1 attempts
            ELSE
            /\ fst' = [fst EXCEPT ![E.f] = IF E.ok THEN "ok" ELSE "fail"] /\ l' = l + 1
            /\ UNCHANGED <<tid, inpOf, isB, att, yc, ended, verdict>>
       [] E.ev = "Cancel" ->
            /\ fst' = [fst EXCEPT ![E.f] = IF @ = "run" THEN "cancel" ELSE @] /\ l' = l + 1
            /\ UNCHANGED <<tid, inpOf, isB, att, yc, ended, verdict>>
       [] E.ev = "Yield" ->
            IF yc[E.i] >= 1 THEN Fail("AtMostOnce")
            ELSE IF ~(\E f \in Subs(E.i) : fst[f] = "ok") THEN Fail("DeliveredWithoutSuccess")
            ELSE /\ yc' = [yc EXCEPT ![E.i] = @ + 1] /\ l' = l + 1 /\ UNCHANGED <<tid, inpOf, isB, fst, att, ended, verdict>>
       [] E.ev = "Raise" ->
            IF ~E.ok THEN Fail("NoCrash")             \* ok = "the exception is the task's own error"
            ELSE IF ~Lost THEN Fail("RaiseMeansLost")
            ELSE /\ ended' = "raised" /\ l' = l + 1 /\ UNCHANGED <<tid, inpOf, isB, fst, att, yc, verdict>>
       [] E.ev = "Return" ->
            IF \E i \in 1..T.n : yc[i] # 1 \/ ~(\E f \in Subs(i) : fst[f] = "ok") THEN Fail("DoneMeansAll")
            ELSE /\ ended' = "done" /\ l' = l + 1 /\ UNCHANGED <<tid, inpOf, isB, fst, att, yc, verdict>>
       [] E.ev = "Hang" -> Fail("Terminates")
       [] OTHER -> Fail("UnknownEvent")
Truncated == /\ verdict = "ok" /\ ended = "no" /\ l > Len(T.events) /\ Fail("Truncated")
Next == Step \/ Truncated
Spec == Init /\ [][Next]_vars
\* verdict line for every trace: printed once when the trace is finished or a clause failed
Final == (verdict # "ok") \/ (ended # "no" /\ l > Len(T.events))
Report == Final => PrintT(<<"VERDICT", tid, verdict, l>>)
====
