---- MODULE MemTrace ----
(* Monitor for measured task memory (C03).  One document per (program, optimizer setting): a sequence of task measurements
   [op, idx, projected, reserved, allowed, peak] where peak = tracemalloc peak of traced allocations while the real task
   function ran in-process (NumPy buffers and byte strings included), reserved = the spec's reserved_mem.
   Clauses:  C03:PeakExceedsProjected   peak > projected          (projected includes reserved)
             C03:AcceptedOverBudget     projected > allowed       (an accepted plan never needs more than allowed_mem) *)
EXTENDS Integers, Sequences, TLC, Json, IOUtils
Docs == JsonDeserialize(IOEnv.TRACE_FILE)
VARIABLES tid, l, verdict
vars == <<tid, l, verdict>>
D == Docs[tid]
E == D.events[l]
Init == tid \in 1..Len(Docs) /\ l = 1 /\ verdict = "ok"
Step == /\ verdict = "ok" /\ l <= Len(D.events)
        /\ IF E.peak > E.projected THEN verdict' = "C03:PeakExceedsProjected" /\ UNCHANGED <<tid, l>>
           ELSE IF E.projected > E.allowed THEN verdict' = "C03:AcceptedOverBudget" /\ UNCHANGED <<tid, l>>
           ELSE l' = l + 1 /\ UNCHANGED <<tid, verdict>>
Spec == Init /\ [][Step]_vars
Final == verdict # "ok" \/ l = Len(D.events) + 1
Report == Final => PrintT(<<"VERDICT", tid, verdict, l>>)
====
