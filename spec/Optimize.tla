---- MODULE Optimize ----
(* Graph optimization (operation fusion), projected memory of fused operations, and admission against the memory budget:
     core/optimization.py  multiple_inputs_optimize_dag / fuse_predecessors / can_fuse_predecessors / predecessor_ops_and_arrays
     primitive/blockwise.py can_fuse_multiple_primitive_ops, peak_projected_mem (MemoryModeller), fuse_multiple
     core/plan.py          _finalize / _find_ops_exceeding_memory, FinalizedPlan.validate / execute
   The DAG shape is constant data (an MC module per shape); projected memories, the budget, the requested set and the
   forced set (always_fuse) are chosen by TLC in Init, so one run covers every combination within the bounds.

   Design switches (cubed = TRUE, TRUE, "max", TRUE); each non-cubed value must violate the invariant next to it:
     CheckRequested = FALSE   fuse away an array that was requested                  -> RewriteValid
     MemGuard       = FALSE   fuse although the predecessors' peak exceeds the budget -> DefaultStaysInBudget
     FusedProj      = "min"   fused projection = min instead of max                   -> FusedNotLess
     ValidateFirst  = FALSE   enter the executor without validating                   -> NothingBeforeValidate *)
EXTENDS Integers, Sequences, FiniteSets, TLC
CONSTANTS Ops,        \* primitive operations (names)
          Arr,        \* arrays
          Inputs,     \* arrays that are inputs of the graph (no primitive producer)
          ProdOf,     \* Arr \ Inputs -> Ops  (a multi-output operation produces several arrays)
          Src0,       \* Ops -> Seq(Arr): ordered source arrays, repeats allowed (f(x, x))
          Topo,       \* a topological order of Ops (sequence)
          FusP, FusS, \* Ops -> BOOLEAN: fusable_with_predecessors / fusable_with_successors
          PMax,       \* projected memories range over 1..PMax
          ReqChoices, \* set of candidate requested sets
          MayForce,   \* BOOLEAN: explore always_fuse subsets
          CheckRequested, MemGuard, FusedProj, ValidateFirst
VARIABLES proj0, chunk, allowed, requested, forced,   \* chosen in Init, then constant
          live, larr, srcs, proj, repl,               \* the DAG being rewritten; repl[o] = original ops replaced by o
          pos,                                        \* next position in Topo to visit
          phase, writes
vars == <<proj0, chunk, allowed, requested, forced, live, larr, srcs, proj, repl, pos, phase, writes>>
Outs(o) == {a \in Arr \ Inputs : ProdOf[a] = o}
Consumers(a) == {o \in live : \E i \in 1..Len(srcs[o]) : srcs[o][i] = a}
Init == /\ proj0 \in [Ops -> 1..PMax] /\ chunk \in [Arr \ Inputs -> {1}] /\ allowed \in 1..(PMax + 1)
        /\ requested \in ReqChoices /\ forced \in (IF MayForce THEN SUBSET Ops ELSE {{}})
        /\ live = Ops /\ larr = Arr /\ srcs = Src0 /\ proj = proj0 /\ repl = [o \in Ops |-> {o}]
        /\ pos = 1 /\ phase = "optimizing" /\ writes = 0
\* predecessor_ops_and_arrays: per source array, (producer, array, can_fuse)
CanFuseArr(a) == /\ a \notin Inputs /\ ProdOf[a] \in live /\ FusS[ProdOf[a]] /\ Cardinality(Consumers(a)) = 1
\* peak_projected_mem over the fusable predecessors in source order (MemoryModeller: allocate projected, free all but the chunk)
RECURSIVE PeakFrom(_, _, _, _)
PeakFrom(s, i, cur, peak) ==
   IF i > Len(s) THEN peak
   ELSE IF CanFuseArr(s[i])
        THEN LET p == ProdOf[s[i]]  c1 == cur + proj[p]  pk == IF c1 > peak THEN c1 ELSE peak
             IN PeakFrom(s, i + 1, c1 - (proj[p] - chunk[s[i]]), pk)
        ELSE PeakFrom(s, i + 1, cur, peak)
Peak(o) == PeakFrom(srcs[o], 1, 0, 0)
Eligible(o) ==                                               \* can_fuse_predecessors, safety part
   /\ o \in live /\ FusP[o]
   /\ \E i \in 1..Len(srcs[o]) : CanFuseArr(srcs[o][i])
   /\ (CheckRequested => \A i \in 1..Len(srcs[o]) : srcs[o][i] \notin requested)
   /\ \A i \in 1..Len(srcs[o]) : srcs[o][i] \notin Inputs => Cardinality(Outs(ProdOf[srcs[o][i]])) = 1
MemOk(o) == o \in forced \/ ~MemGuard \/ Peak(o) <= allowed  \* can_fuse_multiple_primitive_ops; always_fuse overrides
RECURSIVE NewSrcs(_, _)
NewSrcs(s, i) == IF i > Len(s) THEN <<>>
                 ELSE (IF CanFuseArr(s[i]) THEN srcs[ProdOf[s[i]]] ELSE <<s[i]>>) \o NewSrcs(s, i + 1)
Max(a, b) == IF a > b THEN a ELSE b
Min(a, b) == IF a < b THEN a ELSE b
Fuse(o) ==
   LET fa == {srcs[o][i] : i \in {j \in 1..Len(srcs[o]) : CanFuseArr(srcs[o][j])}}
       fp == {ProdOf[a] : a \in fa} IN
   /\ srcs' = [srcs EXCEPT ![o] = NewSrcs(srcs[o], 1)]
   /\ proj' = [proj EXCEPT ![o] = IF FusedProj = "max" THEN Max(proj[o], Peak(o)) ELSE Min(proj[o], Peak(o))]
   /\ repl' = [repl EXCEPT ![o] = @ \cup UNION {repl[p] : p \in fp}]
   /\ live' = live \ fp /\ larr' = larr \ fa
Visit ==                                                      \* multiple_inputs_optimize_dag: one visit per op, in topological order
   /\ phase = "optimizing" /\ pos <= Len(Topo)
   /\ LET o == Topo[pos] IN
      \/ /\ Eligible(o) /\ MemOk(o) /\ Fuse(o)
      \/ /\ o \notin forced                                  \* heuristic limits (source arrays, input blocks, task counts) may refuse
         /\ UNCHANGED <<live, larr, srcs, proj, repl>>
      \/ /\ o \in forced /\ ~(Eligible(o) /\ MemOk(o)) /\ UNCHANGED <<live, larr, srcs, proj, repl>>
   /\ pos' = pos + 1 /\ UNCHANGED <<proj0, chunk, allowed, requested, forced, phase, writes>>
Exceeding == {o \in live : proj[o] > allowed}                \* _find_ops_exceeding_memory
Finalize == /\ phase = "optimizing" /\ pos > Len(Topo) /\ phase' = "finalized"
            /\ UNCHANGED <<proj0, chunk, allowed, requested, forced, live, larr, srcs, proj, repl, pos, writes>>
Validate == /\ phase = "finalized"
            /\ phase' = IF ValidateFirst /\ Exceeding # {} THEN "refused" ELSE "executing"
            /\ UNCHANGED <<proj0, chunk, allowed, requested, forced, live, larr, srcs, proj, repl, pos, writes>>
Write == /\ phase = "executing" /\ writes < 1 /\ writes' = writes + 1
         /\ UNCHANGED <<proj0, chunk, allowed, requested, forced, live, larr, srcs, proj, repl, pos, phase>>
Next == Visit \/ Finalize \/ Validate \/ Write
Spec == Init /\ [][Next]_vars
\* ---- properties
NothingBeforeValidate == (phase = "executing" \/ writes > 0) => Exceeding = {}                  \* C04
RefusedWritesNothing == phase = "refused" => writes = 0                                         \* C04
FusedNotLess == \A o \in live : \A q \in repl[o] : proj[o] >= proj0[q]                          \* C04
DefaultStaysInBudget == (forced = {} /\ \A o \in Ops : proj0[o] <= allowed) => \A o \in live : proj[o] <= allowed   \* C04
RewriteValid ==                                                                                 \* C02
   /\ requested \subseteq larr
   /\ \A a \in larr \ Inputs : ProdOf[a] \in live                                               \* every kept array is still produced
   /\ \A o \in live : \A i \in 1..Len(srcs[o]) : srcs[o][i] \in larr                            \* every consumed array is kept
   /\ \A a \in Arr \ larr : a \notin requested                                                   \* only unrequested arrays vanish
   /\ \A o \in Ops \ live : \E q \in live : o \in repl[q]                                        \* a removed op lives on in exactly one fused op
   /\ \A q1, q2 \in live : q1 # q2 => repl[q1] \cap repl[q2] = {}
\* the blocks a fused op reads are the leaves, in order, of the expression tree it replaced (provenance; C15 binds it)
RECURSIVE Leaves(_, _)
Leaves(o, kept) == LET RECURSIVE L(_, _)
                       L(s, i) == IF i > Len(s) THEN <<>>
                                  ELSE (IF s[i] \in kept \/ s[i] \in Inputs THEN <<s[i]>> ELSE Leaves(ProdOf[s[i]], kept)) \o L(s, i + 1)
                   IN L(Src0[o], 1)
SourcesAreLeaves == \A o \in live : srcs[o] = Leaves(o, larr)                                    \* C02 / C15
====
