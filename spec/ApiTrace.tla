---- MODULE ApiTrace ----
(* Reference-level monitor of the public API as a state machine (C16, C17, C19): what a user may rely on when building,
   planning, visualizing and computing.  One document per scenario; events are API calls with what was observed at the
   contract boundaries (Zarr store, executor, file system, exception type):
     [call   |-> "build" | "plan" | "visualize" | "compute" | "convert",   \* convert: __array__/__bool__/index-by-array ...
      name   |-> function name, sets, dels, datagets |-> numbers of store records during the call, entered |-> an executor ran,
      newfiles |-> files/directories created below the work directory, exc |-> "" or the exception type name,
      variant |-> configuration variant id (C19), accepted, value |-> hash of the computed values ("" if none)]
   Clauses:
   C16  Lazy:            a build / plan / visualize call writes nothing, deletes nothing, reads no data chunk, creates no file,
                         enters no executor (only compute, eager store/to_zarr and conversions may execute)
   C17  DeclinedEarly:   an exception during build or plan is one of ValueError, TypeError, NotImplementedError, IndexError;
                         once build and plan succeeded, a fault-free compute does not fail
   C19  ConfigInvariant: for every configuration variant of one scenario, acceptance (exception type and phase) and computed
                         values equal those of the first variant                                                        *)
EXTENDS Integers, Sequences, FiniteSets, TLC, Json, IOUtils
CONSTANT Focus
P16 == Focus \in {"C16", "all"}
P17 == Focus \in {"C17", "all"}
P19 == Focus \in {"C19", "all"}
Docs == JsonDeserialize(IOEnv.TRACE_FILE)
Allowed == {"ValueError", "TypeError", "NotImplementedError", "IndexError"}
VARIABLES tid, l, state, base, verdict
vars == <<tid, l, state, base, verdict>>
D == Docs[tid]
E == D.events[l]
\* state[v] = "building" | "declined" | "planned" | "computed" per variant; base = summary of the first variant
Init == tid \in 1..Len(Docs) /\ l = 1 /\ state = [v \in {} |-> ""] /\ base = [accepted |-> TRUE, exc |-> "", value |-> "", set |-> FALSE]
        /\ verdict = "ok"
Fail(c) == verdict' = c /\ UNCHANGED <<tid, l, state, base>>
St(v) == IF v \in DOMAIN state THEN state[v] ELSE "building"
Put(f, k, x) == [y \in DOMAIN f \cup {k} |-> IF y = k THEN x ELSE f[y]]
Effects == E.sets > 0 \/ E.dels > 0 \/ E.datagets > 0 \/ E.entered \/ E.newfiles > 0
Lazy == E.call \in {"build", "plan", "visualize"}
Step ==
  /\ verdict = "ok" /\ l <= Len(D.events)
  /\ IF P16 /\ Lazy /\ Effects THEN Fail("C16:EffectDuringLazyCall")
     ELSE IF P17 /\ E.call \in {"build", "plan", "visualize"} /\ E.exc # "" /\ E.exc \notin Allowed THEN Fail("C17:WrongExceptionType")
     ELSE IF P17 /\ E.call = "compute" /\ E.exc # "" /\ St(E.variant) = "planned" /\ ~E.refusedbeforestart THEN Fail("C17:FailedAfterAcceptance")
     ELSE IF P19 /\ E.call = "summary" /\ base.set /\ (E.accepted # base.accepted \/ E.exc # base.exc) THEN Fail("C19:AcceptanceDiffers")
     ELSE IF P19 /\ E.call = "summary" /\ base.set /\ E.accepted /\ E.value # base.value THEN Fail("C19:ValuesDiffer")
     ELSE /\ l' = l + 1 /\ UNCHANGED <<tid, verdict>>
          /\ state' = IF E.call \in {"build", "plan"} /\ E.exc # "" THEN Put(state, E.variant, "declined")
                      ELSE IF E.call = "plan" /\ St(E.variant) # "declined" THEN Put(state, E.variant, "planned")
                      ELSE IF E.call = "compute" THEN Put(state, E.variant, "computed") ELSE state
          /\ base' = IF E.call = "summary" /\ ~base.set THEN [accepted |-> E.accepted, exc |-> E.exc, value |-> E.value, set |-> TRUE] ELSE base
Spec == Init /\ [][Step]_vars
Final == verdict # "ok" \/ l = Len(D.events) + 1
Report == Final => PrintT(<<"VERDICT", tid, verdict, l>>)
====
