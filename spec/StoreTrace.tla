---- MODULE StoreTrace ----
(* Reference-level monitor for store / to_zarr (C11).  One document per call (or per lazy call + compute of the returned
   arrays); facts are read back from the targets with plain zarr and compared with NumPy by the harness:
     [rejected |-> BOOLEAN, exc |-> exception type or "", effects |-> store writes/deletes/new files observed when rejected,
      shouldreject |-> the request cannot be written safely (misaligned region, wrong shape) according to the reference,
      targets |-> << [exists, inside |-> region holds exactly the source values, outside |-> everything else unchanged] >>]
   Clauses: C11:UnsafeRequestAccepted, C11:WrongRejectionType, C11:RejectedButWrote, C11:TargetNotWritten,
            C11:RegionValuesWrong, C11:OutsideRegionModified.  A safe request may also be declined (ValueError /
            NotImplementedError / TypeError) as long as nothing was written. *)
EXTENDS Integers, Sequences, TLC, Json, IOUtils
Docs == JsonDeserialize(IOEnv.TRACE_FILE)
VARIABLES tid, done, verdict
vars == <<tid, done, verdict>>
D == Docs[tid]
Judge ==
   IF D.rejected THEN
        IF D.exc \notin {"ValueError", "TypeError", "NotImplementedError", "IndexError"} THEN "C11:WrongRejectionType"
        ELSE IF D.effects > 0 THEN "C11:RejectedButWrote"
        ELSE "ok"
   ELSE IF D.shouldreject THEN "C11:UnsafeRequestAccepted"
   ELSE IF \E i \in 1..Len(D.targets) : ~D.targets[i].exists THEN "C11:TargetNotWritten"
   ELSE IF \E i \in 1..Len(D.targets) : ~D.targets[i].inside THEN "C11:RegionValuesWrong"
   ELSE IF \E i \in 1..Len(D.targets) : ~D.targets[i].outside THEN "C11:OutsideRegionModified"
   ELSE "ok"
Init == tid \in 1..Len(Docs) /\ done = FALSE /\ verdict = "ok"
Step == ~done /\ done' = TRUE /\ verdict' = Judge /\ UNCHANGED tid
Spec == Init /\ [][Step]_vars
Report == done => PrintT(<<"VERDICT", tid, verdict, 1>>)
====
