---- MODULE TaskTrace ----
(* Trace monitor for executions under the harness's ADVERSARIAL SEQUENTIAL executor (one task at a time, in a scripted
   order, with repeated executions, optionally from the task's serialized form in a fresh interpreter, optionally
   crashing and resuming).  Because one task runs at a time, every store / zarr record between TaskStart and TaskDone
   belongs to that task execution: attribution is exact.

   Clauses (Focus selects the property whose clauses are evaluated):
   C05  a data chunk of an array produced by the computation is written by one task only (a repeated execution of the
        same task is the same writer) and once per execution, only by a task of the array's producer;
        a task never finds another task's data in a chunk of an array its own operation produces (read-modify-write
        signature; zarr's probe of an edge shard, which misses, is not one);
        every zarr-level write covers whole chunks of the target's grid (regular or rectilinear);
        at operation end the keys written cover each output's chunk grid exactly.
   C06  all writes of one key carry the same bytes (SHA-1), whenever and wherever the task is re-executed;
        after the adversarial schedule every array holds what the reference run holds (fact `final` vs `ref`);
        re-execution never deletes a chunk; distinct blocks of a random array are not byte-identical (fact `rnddup`).
   C12  the value written has exactly the shape of the region it is written into; declared shape/dtype/chunks =
        backing array's = computed result's (facts `decl`, `back`, `res`).
   C09  (resumed computation) an operation is skipped only if every output was complete in storage before the resume;
        an operation whose outputs were all complete is not re-run (except array creation and 0-d outputs);
        no data key that existed before the resume is deleted.

   Input: JSON array of [plan |-> [ops: <<[name, nt, computed, outs: <<names>>]>>,
                                  arrays: <<[name, prod, nkeys, decl, back, res, final, ref, complete, zerod, rnddup]>>, resumed],
                         events |-> << [ev, op, idx, kind, arr, key, data, hit, h, vshape, rshape, dims] >>]            *)
EXTENDS Integers, Sequences, FiniteSets, TLC, Json, IOUtils
CONSTANT Focus
P5 == Focus \in {"C05", "all"}
P6 == Focus \in {"C06", "all"}
P9 == Focus \in {"C09", "all"}
P12 == Focus \in {"C12", "all"}
Traces == JsonDeserialize(IOEnv.TRACE_FILE)
VARIABLES tid, l, cur, writer, wrote, thisrun, held, startedOps, endedOps, verdict
vars == <<tid, l, cur, writer, wrote, thisrun, held, startedOps, endedOps, verdict>>
T == Traces[tid]
Plan == T.plan
Log == T.events
E == Log[l]
OpNames == {Plan.ops[i].name : i \in 1..Len(Plan.ops)}
OpRec(o) == Plan.ops[CHOOSE i \in 1..Len(Plan.ops) : Plan.ops[i].name = o]
ArrNames == {Plan.arrays[i].name : i \in 1..Len(Plan.arrays)}
ArrRec(a) == Plan.arrays[CHOOSE i \in 1..Len(Plan.arrays) : Plan.arrays[i].name = a]
Produced(a) == a \in ArrNames /\ ArrRec(a).prod \in OpNames
Prod(a) == ArrRec(a).prod
OutsOf(o) == {a \in ArrNames : ArrRec(a).prod = o}
NoTask == <<"", -1>>
Init == /\ tid \in 1..Len(Traces) /\ l = 1 /\ cur = NoTask
        /\ writer = [k \in {} |-> NoTask]     \* <<arr, key>> -> <<op, idx>>
        /\ wrote = [a \in ArrNames |-> {}]    \* keys written so far, per array
        /\ thisrun = {}                       \* keys written by the current task execution
        /\ held = [k \in {} |-> ""]           \* <<arr, key>> -> hash
        /\ startedOps = {} /\ endedOps = {} /\ verdict = "ok"
Fail(c) == verdict' = c /\ UNCHANGED <<tid, l, cur, writer, wrote, thisrun, held, startedOps, endedOps>>
Adv == l' = l + 1 /\ UNCHANGED <<tid, verdict>>
Put(f, k, v) == [x \in DOMAIN f \cup {k} |-> IF x = k THEN v ELSE f[x]]
Aligned(d) == /\ (IF d.c > 0 THEN d.start % d.c = 0 ELSE \E i \in 1..Len(d.bounds) : d.bounds[i] = d.start)
              /\ (d.stop = d.n \/ (IF d.c > 0 THEN d.stop % d.c = 0 ELSE \E i \in 1..Len(d.bounds) : d.bounds[i] = d.stop))
FactsOk(a) == LET r == ArrRec(a) IN
              /\ (r.back # "" => r.decl = r.back)
              /\ (r.res # "" => r.decl = r.res)
Step ==
  /\ verdict = "ok" /\ l <= Len(Log)
  /\ CASE E.ev = "taskstart" ->
            /\ cur' = <<E.op, E.idx>> /\ thisrun' = {} /\ Adv
            /\ UNCHANGED <<writer, wrote, held, startedOps, endedOps>>
       [] E.ev = "taskdone" ->
            /\ cur' = NoTask /\ thisrun' = {} /\ Adv /\ UNCHANGED <<writer, wrote, held, startedOps, endedOps>>
       [] E.ev = "set" ->
            LET k == <<E.arr, E.key>> IN
            IF ~(E.data /\ Produced(E.arr)) THEN Adv /\ UNCHANGED <<cur, writer, wrote, thisrun, held, startedOps, endedOps>>
            ELSE IF P5 /\ cur = NoTask THEN Fail("C05:WriteOutsideTask")
            ELSE IF P5 /\ cur[1] # Prod(E.arr) THEN Fail("C05:WriteByNonProducer")
            ELSE IF P5 /\ k \in DOMAIN writer /\ writer[k] # cur THEN Fail("C05:SecondWriterForChunk")
            ELSE IF P5 /\ k \in thisrun THEN Fail("C05:ChunkWrittenTwiceInOneExecution")
            ELSE IF P6 /\ k \in DOMAIN held /\ held[k] # E.h THEN Fail("C06:RewriteDiffers")
            ELSE /\ writer' = Put(writer, k, cur) /\ wrote' = [wrote EXCEPT ![E.arr] = @ \cup {E.key}]
                 /\ thisrun' = thisrun \cup {k} /\ held' = Put(held, k, E.h) /\ Adv
                 /\ UNCHANGED <<cur, startedOps, endedOps>>
       [] E.ev = "get" ->
            \* read-modify-write signature: a task of the producing operation finds, in its own output, data written by
            \* ANOTHER task.  (A miss, or a hit on the task's own earlier write, is zarr's harmless probe of an edge
            \* shard / a repeated execution and is not a violation.)
            IF P5 /\ E.data /\ E.hit /\ Produced(E.arr) /\ cur # NoTask /\ cur[1] = Prod(E.arr)
                  /\ <<E.arr, E.key>> \in DOMAIN writer /\ writer[<<E.arr, E.key>>] # cur THEN Fail("C05:ReadModifyWrite")
            ELSE Adv /\ UNCHANGED <<cur, writer, wrote, thisrun, held, startedOps, endedOps>>
       [] E.ev = "del" ->
            IF P9 /\ E.data THEN Fail("C09:ChunkDeleted")
            ELSE IF P6 /\ E.data /\ Produced(E.arr) THEN Fail("C06:ChunkDeletedByReexecution")
            ELSE Adv /\ UNCHANGED <<cur, writer, wrote, thisrun, held, startedOps, endedOps>>
       [] E.ev = "awrite" ->
            IF ~Produced(E.arr) THEN Adv /\ UNCHANGED <<cur, writer, wrote, thisrun, held, startedOps, endedOps>>
            ELSE IF P12 /\ E.vshape # E.rshape THEN Fail("C12:BlockShapeMismatch")
            ELSE IF P5 /\ \E i \in 1..Len(E.dims) : ~Aligned(E.dims[i]) THEN Fail("C05:PartialChunkWrite")
            ELSE Adv /\ UNCHANGED <<cur, writer, wrote, thisrun, held, startedOps, endedOps>>
       [] E.ev = "opstart" ->
            IF P9 /\ Plan.resumed /\ E.op # "create-arrays" /\ OutsOf(E.op) # {}
                  /\ (\A a \in OutsOf(E.op) : ArrRec(a).complete /\ ~ArrRec(a).zerod) THEN Fail("C09:RecomputedCompleteArray")
            ELSE startedOps' = startedOps \cup {E.op} /\ Adv /\ UNCHANGED <<cur, writer, wrote, thisrun, held, endedOps>>
       [] E.ev = "opend" ->
            IF P5 /\ \E a \in OutsOf(E.op) : ArrRec(a).nkeys >= 0 /\ Cardinality(wrote[a]) # ArrRec(a).nkeys THEN Fail("C05:OutputsNotCovered")
            ELSE endedOps' = endedOps \cup {E.op} /\ Adv /\ UNCHANGED <<cur, writer, wrote, thisrun, held, startedOps>>
       [] E.ev = "computeend" ->
            IF P9 /\ Plan.resumed /\ (\E o \in OpNames \ startedOps : o # "create-arrays" /\ \E a \in OutsOf(o) : ~ArrRec(a).complete)
               THEN Fail("C09:SkippedIncompleteArray")
            ELSE IF P12 /\ \E a \in ArrNames : ~FactsOk(a) THEN Fail("C12:DeclaredMetadataUntrue")
            ELSE IF P6 /\ \E a \in ArrNames : ArrRec(a).ref # "" /\ ArrRec(a).final # ArrRec(a).ref THEN Fail("C06:FinalContentsDiffer")
            ELSE IF P6 /\ \E a \in ArrNames : ArrRec(a).rnddup THEN Fail("C06:RandomBlocksNotDistinct")
            ELSE Adv /\ UNCHANGED <<cur, writer, wrote, thisrun, held, startedOps, endedOps>>
       [] OTHER -> Adv /\ UNCHANGED <<cur, writer, wrote, thisrun, held, startedOps, endedOps>>
Next == Step
Spec == Init /\ [][Next]_vars
Final == verdict # "ok" \/ l = Len(Log) + 1
Report == Final => PrintT(<<"VERDICT", tid, verdict, l>>)
====
