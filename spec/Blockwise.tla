---- MODULE Blockwise ----
(* Reference semantics of cubed's blockwise primitive (C15), evaluated by TLC on cases supplied as JSON (TLC as the
   evaluator of a transcribed function; every case becomes one implementation test):

   (1) Index notation  (primitive/blockwise.py make_blockwise_back_key_function[_flattened]; vendor/dask/blockwise.py)
       case = [id, kind |-> "index", out |-> <<symbols>>, args |-> << [name, ind |-> <<symbols>>, nb |-> <<numblocks>>] >>,
               blocks |-> << output block coordinates >>]
       For argument k and dimension d with symbol s:  block 0 if the argument has a single block there (broadcast),
       else the output coordinate at the position of s in `out`.  A symbol that is not in `out` (contraction / dropped
       axis) is allowed only where the argument has a single block; otherwise the construction is declined (ValueError).
       Arguments whose block counts disagree on a symbol (other than 1) are declined as well.

   (2) Fusion provenance  (fuse_multiple / fuse, make_fused_back_key_function, apply_blockwise_key_func,
       make_fused_function, apply_blockwise_func, map_nested)
       case = [id, kind |-> "fusion", ops |-> << [name, kf, srcs |-> <<array names>>, out, n, fused] >>, consumer,
               blocks |-> <<i>>]   (1-d block grids; kf is the shape of the key function)
         "map"      out(i) <- (s1(i))                         "map2"   out(i) <- (s1(i), s2(i))
         "shift"    out(i) <- (s1((i+1) mod n))               "swap2"  out(i) <- (s2(i), s1(i))
         "pairlist" out(i) <- ([s1(2i), s1(2i+1)])   (list)   "pairiter" the same as an iterator (streamed)
         "alt"      out(i) <- (s1(i div 2)) if i even else (s2(i div 2))        (stack-like alternating source)
         "concat"   out(i) <- (s1(i)) if i < n else (s2(i - n))                  (concat-like)
         "rep"      out(i) <- (s1(i), s1(i))                   (repeated argument f(x, x))
         "mixlist"  out(i) <- ([s1(i), s2(i)])   a list mixing blocks of two arrays;   "mixiter" the same as an iterator
       Term(op, i): the value op computes for output block i = App(op, arguments), where an argument that designates a
       block of an array produced by a FUSED predecessor is replaced by that predecessor's term, and lists / iterators
       keep their structure.  The fused operation built by the real code must compute exactly this term. *)
EXTENDS Integers, Sequences, FiniteSets, TLC, Json, IOUtils
Cases == JsonDeserialize(IOEnv.CASE_FILE)
In(s, q) == \E i \in 1..Len(q) : q[i] = s
Pos(s, q) == CHOOSE i \in 1..Len(q) : q[i] = s
\* ---------------------------------------------------------------- (1) index notation
Syms(c) == UNION {{c.args[k].ind[d] : d \in 1..Len(c.args[k].ind)} : k \in 1..Len(c.args)}
BlocksOf(c, s) == UNION {{c.args[k].nb[d] : d \in {e \in 1..Len(c.args[k].ind) : c.args[k].ind[e] = s}} : k \in 1..Len(c.args)}
Declined(c) ==
   \/ \E k \in 1..Len(c.args) : \E d \in 1..Len(c.args[k].ind) : ~In(c.args[k].ind[d], c.out) /\ c.args[k].nb[d] > 1
   \/ \E s \in Syms(c) : Cardinality(BlocksOf(c, s) \ {1}) > 1
Coord(c, o, k, d) == IF c.args[k].nb[d] = 1 THEN 0 ELSE o[Pos(c.args[k].ind[d], c.out)]
KeysFor(c, o) == [k \in 1..Len(c.args) |-> [name |-> c.args[k].name,
                                             coords |-> [d \in 1..Len(c.args[k].ind) |-> Coord(c, o, k, d)]]]
IndexResult(c) == IF Declined(c) THEN [id |-> c.id, declined |-> TRUE, keys |-> <<>>]
                  ELSE [id |-> c.id, declined |-> FALSE, keys |-> [b \in 1..Len(c.blocks) |-> KeysFor(c, c.blocks[b])]]
\* ---------------------------------------------------------------- (2) fusion provenance
OpRec(c, name) == c.ops[CHOOSE j \in 1..Len(c.ops) : c.ops[j].name = name]
Producer(c, arr) == IF \E j \in 1..Len(c.ops) : c.ops[j].out = arr THEN c.ops[CHOOSE j \in 1..Len(c.ops) : c.ops[j].out = arr].name ELSE ""
K(a, i) == [t |-> "k", arr |-> a, i |-> i]
Lst(items) == [t |-> "list", items |-> items]
Itr(items) == [t |-> "iter", items |-> items]
KF(op, i) ==
   LET s == op.srcs  n == op.n IN
   CASE op.kf = "map"      -> << K(s[1], i) >>
     [] op.kf = "map2"     -> << K(s[1], i), K(s[2], i) >>
     [] op.kf = "swap2"    -> << K(s[2], i), K(s[1], i) >>
     [] op.kf = "rep"      -> << K(s[1], i), K(s[1], i) >>
     [] op.kf = "shift"    -> << K(s[1], (i + 1) % n) >>
     [] op.kf = "pairlist" -> << Lst(<< K(s[1], 2 * i), K(s[1], 2 * i + 1) >>) >>
     [] op.kf = "pairiter" -> << Itr(<< K(s[1], 2 * i), K(s[1], 2 * i + 1) >>) >>
     [] op.kf = "mixlist"  -> << Lst(<< K(s[1], i), K(s[2], i) >>) >>
     [] op.kf = "mixiter"  -> << Itr(<< K(s[1], i), K(s[2], i) >>) >>
     [] op.kf = "alt"      -> << IF i % 2 = 0 THEN K(s[1], i \div 2) ELSE K(s[2], i \div 2) >>
     [] op.kf = "concat"   -> << IF i < n THEN K(s[1], i) ELSE K(s[2], i - n) >>
RECURSIVE Term(_, _, _), Expand(_, _)
Expand(c, x) ==
   IF x.t = "k"
   THEN LET p == Producer(c, x.arr) IN
        IF p # "" /\ OpRec(c, p).fused THEN Term(c, p, x.i) ELSE [blk |-> x.arr, i |-> x.i]
   ELSE [t |-> x.t, items |-> [j \in 1..Len(x.items) |-> Expand(c, x.items[j])]]
Term(c, name, i) == LET op == OpRec(c, name)  kf == KF(op, i) IN
                    [f |-> name, args |-> [a \in 1..Len(kf) |-> Expand(c, kf[a])]]
FusionResult(c) == [id |-> c.id, terms |-> [b \in 1..Len(c.blocks) |-> Term(c, c.consumer, c.blocks[b])]]
\* ---------------------------------------------------------------- driver
Result(c) == IF c.kind = "index" THEN IndexResult(c) ELSE FusionResult(c)
VARIABLE n
Init == n = 0
Next == n < Len(Cases) /\ n' = n + 1 /\ PrintT("RES" \o ToJson(Result(Cases[n + 1])))
Spec == Init /\ [][Next]_n
====
