---- MODULE MemSize ----
(* What a memory-size literal means (C18): decimal SI units, whole bytes, exactly -- or rejected.
   TLC's integers are 32-bit, so numbers are handled as DIGIT SEQUENCES; a literal arrives as a sequence of character codes.
   Grammar (after removing spaces):   number [unit]
       number = ["+"] digits ["." digits*] [("e"|"E") ["+"|"-"] digits]  |  ["+"] "." digits [exponent]
                (an underscore may separate two digits, as in Python numeric literals)
       unit   = "B" | "kB" | "MB" | "GB" | "TB" | "PB"
   Meaning: digits(int) digits(frac) x 10^(exp - |frac| + 3 * k(unit)); it must be a whole, non-negative number of bytes.
   Everything else -- other case ("kb", "Kb"), binary units ("KiB"), "EB", a negative number, unit only, empty -- is rejected.
   (Non-ASCII digits, which Python's float() accepts, are outside the grammar and are not generated.)
   Result(c) = [id, ok |-> BOOLEAN, digits |-> canonical decimal digits of the number of bytes (no leading zeros)]. *)
EXTENDS Integers, Sequences, TLC, Json, IOUtils
Cases == JsonDeserialize(IOEnv.CASE_FILE)
IsDigit(c) == c >= 48 /\ c <= 57
Ch(s) == CHOOSE c \in 0..255 : TRUE
Strip(s) == SelectSeq(s, LAMBDA c : c # 32)
\* ---- unit
UnitLen(s) == LET n == Len(s) IN
   IF n >= 1 /\ s[n] = 66 THEN (IF n >= 2 /\ s[n - 1] \in {107, 77, 71, 84, 80} THEN 2 ELSE 1) ELSE 0
UnitPow(s) == LET n == Len(s) IN
   IF UnitLen(s) = 2 THEN (CASE s[n - 1] = 107 -> 1 [] s[n - 1] = 77 -> 2 [] s[n - 1] = 71 -> 3 [] s[n - 1] = 84 -> 4 [] s[n - 1] = 80 -> 5)
   ELSE 0
\* ---- number: scan digits (with single underscores between digits) from position i; returns <<digits, next position>> or <<-1>>
RECURSIVE ScanDigits(_, _, _, _)
ScanDigits(s, i, acc, lastWasDigit) ==
   IF i > Len(s) THEN <<acc, i, lastWasDigit>>
   ELSE IF IsDigit(s[i]) THEN ScanDigits(s, i + 1, Append(acc, s[i] - 48), TRUE)
   ELSE IF s[i] = 95 /\ lastWasDigit /\ i < Len(s) /\ IsDigit(s[i + 1]) THEN ScanDigits(s, i + 1, acc, FALSE)
   ELSE <<acc, i, lastWasDigit>>
Bad == [ok |-> FALSE, ip |-> <<>>, fp |-> <<>>, exp |-> 0]
ToInt(ds) == LET RECURSIVE F(_, _)
                 F(i, acc) == IF i > Len(ds) THEN acc ELSE F(i + 1, acc * 10 + ds[i]) IN F(1, 0)
ParseNumber(s) ==
   LET neg == Len(s) >= 1 /\ s[1] = 45
       i0 == IF Len(s) >= 1 /\ s[1] \in {43, 45} THEN 2 ELSE 1
       a == ScanDigits(s, i0, <<>>, FALSE)
       hasDot == a[2] <= Len(s) /\ s[a[2]] = 46
       b == IF hasDot THEN ScanDigits(s, a[2] + 1, <<>>, FALSE) ELSE <<<<>>, a[2], FALSE>>
       j == b[2]
       hasExp == j <= Len(s) /\ s[j] \in {101, 69}
       sgn == IF hasExp /\ j + 1 <= Len(s) /\ s[j + 1] = 45 THEN -1 ELSE 1
       k0 == IF hasExp /\ j + 1 <= Len(s) /\ s[j + 1] \in {43, 45} THEN j + 2 ELSE j + 1
       e == IF hasExp THEN ScanDigits(s, k0, <<>>, FALSE) ELSE <<<<>>, j, FALSE>>
   IN
   IF Len(a[1]) = 0 /\ Len(b[1]) = 0 THEN Bad
   ELSE IF hasExp /\ (Len(e[1]) = 0 \/ Len(e[1]) > 3) THEN Bad
   ELSE IF e[2] # Len(s) + 1 THEN Bad                \* trailing garbage
   ELSE IF neg /\ (~(\A q \in 1..Len(a[1]) : a[1][q] = 0) \/ ~(\A q \in 1..Len(b[1]) : b[1][q] = 0)) THEN Bad   \* negative sizes (minus zero is zero)
   ELSE [ok |-> TRUE, ip |-> a[1], fp |-> b[1], exp |-> IF hasExp THEN sgn * ToInt(e[1]) ELSE 0]
\* ---- exact value: all digits, then the decimal point is moved by shift = exp + 3 * pow - |fp|
RECURSIVE DropLeadingZeros(_)
DropLeadingZeros(ds) == IF Len(ds) > 1 /\ ds[1] = 0 THEN DropLeadingZeros(Tail(ds)) ELSE ds
Zeros(n) == [i \in 1..n |-> 0]
AllZero(ds) == \A i \in 1..Len(ds) : ds[i] = 0
Value(p, pow) ==
   LET all == p.ip \o p.fp
       shift == p.exp + 3 * pow - Len(p.fp) IN
   IF shift >= 0 THEN [ok |-> TRUE, digits |-> DropLeadingZeros(IF Len(all) = 0 THEN <<0>> ELSE all \o Zeros(shift))]
   ELSE LET cut == -shift IN
        IF cut >= Len(all) THEN (IF AllZero(all) THEN [ok |-> TRUE, digits |-> <<0>>] ELSE [ok |-> FALSE, digits |-> <<>>])
        ELSE IF AllZero(SubSeq(all, Len(all) - cut + 1, Len(all)))
             THEN [ok |-> TRUE, digits |-> DropLeadingZeros(SubSeq(all, 1, Len(all) - cut))]
             ELSE [ok |-> FALSE, digits |-> <<>>]                 \* not a whole number of bytes
Bytes(raw) ==
   LET s == Strip(raw)
       ul == UnitLen(s)
       num == SubSeq(s, 1, Len(s) - ul)
       p == ParseNumber(num) IN
   IF Len(s) = 0 \/ ~p.ok THEN [ok |-> FALSE, digits |-> <<>>] ELSE Value(p, UnitPow(s))
Result(c) == LET b == Bytes(c.chars) IN [id |-> c.id, ok |-> b.ok, digits |-> b.digits]
VARIABLE n
Init == n = 0
Next == n < Len(Cases) /\ n' = n + 1 /\ PrintT("RES" \o ToJson(Result(Cases[n + 1])))
Spec == Init /\ [][Next]_n
====
