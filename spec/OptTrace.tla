---- MODULE OptTrace ----
(* Monitor for what cubed's optimizers and admission check actually did, at the reference level of Optimize.tla.
   One document per (program, optimizer setting, budget):
     pre / post : the DAG before and after optimization, read from the real FinalizedPlan objects
                  ops  = <<[name, srcs (ordered source array names), proj, outs]>>, arrays = <<names>>, inputs = <<names>>
     requested, allowed, forced (an always_fuse / fuse_all style optimizer was used), events (admission trace):
                  "enter" (executor entered), "write" (a store set/delete happened), "refuse" (ValueError before anything),
                  "ok" (call returned), "error" (another exception)
   Clauses (Focus = "C02" | "C04" | "all"):
   C02  RewriteValid      requested arrays kept; every kept array still produced; every consumed array kept; only unrequested
                          arrays vanish; every surviving op existed before (fusion keeps the consumer's name)
        SourcesAreLeaves  the source arrays of each surviving op are, in order, the leaves of the expression it replaced
   C04  FusedNotLess      post.proj[o] >= pre.proj[q] for every original op q fused into o
        DefaultStaysInBudget   not forced and every pre proj <= allowed  =>  every post proj <= allowed
        Admission         some post proj > allowed  =>  refuse, and no enter / write before it;
                          no post proj > allowed    =>  not refused, and enter precedes every write               *)
EXTENDS Integers, Sequences, FiniteSets, TLC, Json, IOUtils
CONSTANT Focus
P2 == Focus \in {"C02", "all"}
P4 == Focus \in {"C04", "all"}
Docs == JsonDeserialize(IOEnv.TRACE_FILE)
VARIABLES tid, l, entered, wrote, refused, verdict
vars == <<tid, l, entered, wrote, refused, verdict>>
D == Docs[tid]
SeqSet(s) == {s[i] : i \in 1..Len(s)}
OpsOf(g) == {g.ops[i].name : i \in 1..Len(g.ops)}
Rec(g, o) == g.ops[CHOOSE i \in 1..Len(g.ops) : g.ops[i].name = o]
ArrOf(g) == SeqSet(g.arrays)
Inputs == SeqSet(D.pre.inputs)
ProdPre(a) == CHOOSE o \in OpsOf(D.pre) : a \in SeqSet(Rec(D.pre, o).outs)
HasProd(g, a) == \E o \in OpsOf(g) : a \in SeqSet(Rec(g, o).outs)
Kept == ArrOf(D.post)
RECURSIVE Leaves(_)
Leaves(o) == LET RECURSIVE L(_, _)
                 L(s, i) == IF i > Len(s) THEN <<>>
                            ELSE (IF s[i] \in Kept \/ s[i] \in Inputs \/ ~HasProd(D.pre, s[i]) THEN <<s[i]>> ELSE Leaves(ProdPre(s[i]))) \o L(s, i + 1)
             IN L(Rec(D.pre, o).srcs, 1)
RECURSIVE Replaced(_)
Replaced(o) == {o} \cup UNION {Replaced(ProdPre(a)) : a \in {x \in SeqSet(Rec(D.pre, o).srcs) : x \notin Kept /\ x \notin Inputs /\ HasProd(D.pre, x)}}
Requested == SeqSet(D.requested)
RewriteValid == /\ Requested \subseteq Kept
                /\ \A a \in Kept : HasProd(D.pre, a) => HasProd(D.post, a)
                /\ \A o \in OpsOf(D.post) : SeqSet(Rec(D.post, o).srcs) \subseteq Kept
                /\ OpsOf(D.post) \subseteq OpsOf(D.pre)
                /\ Kept \subseteq ArrOf(D.pre)
SourcesAreLeaves == \A o \in OpsOf(D.post) : Rec(D.post, o).srcs = Leaves(o)
FusedNotLess == \A o \in OpsOf(D.post) : \A q \in Replaced(o) : Rec(D.post, o).proj >= Rec(D.pre, q).proj
StaysInBudget == (~D.forced /\ \A o \in OpsOf(D.pre) : Rec(D.pre, o).proj <= D.allowed)
                    => \A o \in OpsOf(D.post) : Rec(D.post, o).proj <= D.allowed
Exceeds == \E o \in OpsOf(D.post) : Rec(D.post, o).proj > D.allowed
Init == tid \in 1..Len(Docs) /\ l = 0 /\ entered = FALSE /\ wrote = FALSE /\ refused = FALSE /\ verdict = "ok"
Fail(c) == verdict' = c /\ UNCHANGED <<tid, l, entered, wrote, refused>>
Static ==      \* step 0: judge the DAG pair
  /\ l = 0 /\ verdict = "ok"
  /\ IF P2 /\ ~RewriteValid THEN Fail("C02:RewriteValid")
     ELSE IF P2 /\ ~SourcesAreLeaves THEN Fail("C02:SourcesAreLeaves")
     ELSE IF P4 /\ ~FusedNotLess THEN Fail("C04:FusedNotLess")
     ELSE IF P4 /\ ~StaysInBudget THEN Fail("C04:DefaultStaysInBudget")
     ELSE l' = 1 /\ UNCHANGED <<tid, entered, wrote, refused, verdict>>
E == D.events[l]
Step ==
  /\ l >= 1 /\ l <= Len(D.events) /\ verdict = "ok"
  /\ CASE E = "enter" -> IF P4 /\ Exceeds THEN Fail("C04:ExecutorEnteredAlthoughOverBudget")
                         ELSE entered' = TRUE /\ l' = l + 1 /\ UNCHANGED <<tid, wrote, refused, verdict>>
       [] E = "write" -> IF P4 /\ Exceeds THEN Fail("C04:WroteAlthoughOverBudget")
                         ELSE IF P4 /\ ~entered THEN Fail("C04:WroteBeforeExecutorEntered")
                         ELSE wrote' = TRUE /\ l' = l + 1 /\ UNCHANGED <<tid, entered, refused, verdict>>
       [] E = "refuse" -> IF P4 /\ ~Exceeds THEN Fail("C04:RefusedAlthoughWithinBudget")
                          ELSE IF P4 /\ (entered \/ wrote) THEN Fail("C04:RefusedAfterStarting")
                          ELSE refused' = TRUE /\ l' = l + 1 /\ UNCHANGED <<tid, entered, wrote, verdict>>
       [] E = "ok" -> IF P4 /\ Exceeds THEN Fail("C04:NotRefusedAlthoughOverBudget")
                      ELSE l' = l + 1 /\ UNCHANGED <<tid, entered, wrote, refused, verdict>>
       [] OTHER -> l' = l + 1 /\ UNCHANGED <<tid, entered, wrote, refused, verdict>>
Next == Static \/ Step
Spec == Init /\ [][Next]_vars
Final == verdict # "ok" \/ l = Len(D.events) + 1
Report == Final => PrintT(<<"VERDICT", tid, verdict, l>>)
====
