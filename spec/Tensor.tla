---- MODULE Tensor ----
(* Executable meaning of cubed's array functions on small integer tensors (the reference level of C01): a tensor is
   [shape |-> <<extents>>, data |-> <<elements in C (row-major) order>>].  Every operator is a few lines of index arithmetic,
   independent of chunking, fusion and executors -- which is exactly what C01 says the result may not depend on.
   TLC evaluates programs (the JSON format of harness/programs.py) with these operators; cubed's result for every chunking,
   executor and optimization setting must equal the value computed here (and NumPy must agree with it too, otherwise the
   specification is wrong and the check stops with a machinery error).
   Floating-point kernels are out of scope of this module (DESIGN.md section 8): they are judged by NumPy only. *)
EXTENDS Integers, Sequences, FiniteSets, TLC, Json, IOUtils
Cases == JsonDeserialize(IOEnv.CASE_FILE)
RECURSIVE ProdFrom(_, _)
ProdFrom(s, i) == IF i > Len(s) THEN 1 ELSE s[i] * ProdFrom(s, i + 1)
Size(shape) == ProdFrom(shape, 1)
Stride(shape, d) == ProdFrom(shape, d + 1)
\* 0-based flat offset <-> 0-based index tuple
Unravel(k, shape) == [d \in 1..Len(shape) |-> (k \div Stride(shape, d)) % shape[d]]
RECURSIVE RavelFrom(_, _, _)
RavelFrom(idx, shape, d) == IF d > Len(shape) THEN 0 ELSE idx[d] * Stride(shape, d) + RavelFrom(idx, shape, d + 1)
Ravel(idx, shape) == RavelFrom(idx, shape, 1)
At(t, idx) == t.data[Ravel(idx, t.shape) + 1]
Build(shape, f(_)) == [shape |-> shape, data |-> [k \in 1..Size(shape) |-> f(Unravel(k - 1, shape))]]
Max2(a, b) == IF a > b THEN a ELSE b
Min2(a, b) == IF a < b THEN a ELSE b
Abs(a) == IF a < 0 THEN -a ELSE a
Mod(a, n) == ((a % n) + n) % n
Remove(s, d) == [i \in 1..(Len(s) - 1) |-> IF i < d THEN s[i] ELSE s[i + 1]]
Insert(s, d, v) == [i \in 1..(Len(s) + 1) |-> IF i < d THEN s[i] ELSE IF i = d THEN v ELSE s[i - 1]]
Set(s, d, v) == [s EXCEPT ![d] = v]
\* ---- broadcasting (NumPy rules): align trailing dimensions
BShape(s1, s2) == LET n == Max2(Len(s1), Len(s2)) IN
   [i \in 1..n |-> LET a == IF i > n - Len(s1) THEN s1[i - (n - Len(s1))] ELSE 1
                       b == IF i > n - Len(s2) THEN s2[i - (n - Len(s2))] ELSE 1 IN IF a = 1 THEN b ELSE a]
BIdx(idx, s) == [i \in 1..Len(s) |-> IF s[i] = 1 THEN 0 ELSE idx[i + (Len(idx) - Len(s))]]
Elem2(f(_, _), a, b) == LET sh == BShape(a.shape, b.shape) IN Build(sh, LAMBDA idx : f(At(a, BIdx(idx, a.shape)), At(b, BIdx(idx, b.shape))))
Elem1(f(_), a) == [shape |-> a.shape, data |-> [k \in 1..Len(a.data) |-> f(a.data[k])]]
Where3(c, a, b) == LET sh == BShape(BShape(c.shape, a.shape), b.shape) IN
   Build(sh, LAMBDA idx : IF At(c, BIdx(idx, c.shape)) # 0 THEN At(a, BIdx(idx, a.shape)) ELSE At(b, BIdx(idx, b.shape)))
BroadcastTo(a, sh) == Build(sh, LAMBDA idx : At(a, BIdx(idx, a.shape)))
\* ---- reductions along one axis (1-based d); keepdims
RECURSIVE FoldAxis(_, _, _, _, _, _)
FoldAxis(f(_, _), t, idx, d, j, acc) == IF j >= t.shape[d] THEN acc ELSE FoldAxis(f, t, idx, d, j + 1, f(acc, At(t, Set(idx, d, j))))
ReduceAxis(f(_, _), t, d, keep) ==
   LET osh == IF keep THEN Set(t.shape, d, 1) ELSE Remove(t.shape, d)
       Full(idx) == IF keep THEN idx ELSE Insert(idx, d, 0) IN
   Build(osh, LAMBDA idx : FoldAxis(f, t, Full(idx), d, 1, At(t, Set(Full(idx), d, 0))))
RECURSIVE ReduceAxes(_, _, _, _)
ReduceAxes(f(_, _), t, axes, keep) ==      \* axes: descending sequence of 1-based axes
   IF Len(axes) = 0 THEN t ELSE ReduceAxes(f, ReduceAxis(f, t, Head(axes), keep), Tail(axes), keep)
AllAxesDesc(t) == [i \in 1..Len(t.shape) |-> Len(t.shape) - i + 1]
ArgAxis(better(_, _), t, d, keep) ==       \* index of the first best element along d
   LET osh == IF keep THEN Set(t.shape, d, 1) ELSE Remove(t.shape, d)
       Full(idx) == IF keep THEN idx ELSE Insert(idx, d, 0)
       Best(idx) == CHOOSE j \in 0..(t.shape[d] - 1) :
                       /\ \A k \in 0..(t.shape[d] - 1) : ~better(At(t, Set(idx, d, k)), At(t, Set(idx, d, j)))
                       /\ \A k \in 0..(j - 1) : better(At(t, Set(idx, d, j)), At(t, Set(idx, d, k))) IN
   Build(osh, LAMBDA idx : Best(Full(idx)))
RECURSIVE PrefixSum(_, _, _, _)
PrefixSum(t, idx, d, j) == IF j < 0 THEN 0 ELSE At(t, Set(idx, d, j)) + PrefixSum(t, idx, d, j - 1)
CumSum(t, d) == Build(t.shape, LAMBDA idx : PrefixSum(t, idx, d, idx[d]))
\* ---- manipulation
Reshape(t, sh) == [shape |-> sh, data |-> t.data]
Permute(t, p) == Build([i \in 1..Len(p) |-> t.shape[p[i] + 1]], LAMBDA idx : At(t, [j \in 1..Len(p) |-> idx[CHOOSE i \in 1..Len(p) : p[i] + 1 = j]]))
Flip(t, d) == Build(t.shape, LAMBDA idx : At(t, Set(idx, d, t.shape[d] - 1 - idx[d])))
Roll(t, shift, d) == Build(t.shape, LAMBDA idx : At(t, Set(idx, d, Mod(idx[d] - shift, t.shape[d]))))
Concat2(a, b, d) == Build(Set(a.shape, d, a.shape[d] + b.shape[d]),
                          LAMBDA idx : IF idx[d] < a.shape[d] THEN At(a, idx) ELSE At(b, Set(idx, d, idx[d] - a.shape[d])))
RECURSIVE ConcatAll(_, _, _)
ConcatAll(ts, d, i) == IF i = Len(ts) THEN ts[i] ELSE Concat2(ts[i], ConcatAll(ts, d, i + 1), d)
ExpandDims(t, d) == Reshape(t, Insert(t.shape, d, 1))
Squeeze(t, d) == Reshape(t, Remove(t.shape, d))
Stack(ts, d) == ConcatAll([i \in 1..Len(ts) |-> ExpandDims(ts[i], d)], d, 1)
Repeat(t, r, d) == Build(Set(t.shape, d, t.shape[d] * r), LAMBDA idx : At(t, Set(idx, d, idx[d] \div r)))
\* slicing with normalised (start, step, count) per dimension
SliceT(t, sl) == Build([d \in 1..Len(sl) |-> sl[d].count], LAMBDA idx : At(t, [d \in 1..Len(sl) |-> sl[d].start + idx[d] * sl[d].step]))
Tril(t, k) == Build(t.shape, LAMBDA idx : IF idx[2] - idx[1] <= k THEN At(t, idx) ELSE 0)
Triu(t, k) == Build(t.shape, LAMBDA idx : IF idx[2] - idx[1] >= k THEN At(t, idx) ELSE 0)
RECURSIVE Dot(_, _, _, _, _)
Dot(a, b, i, j, k) == IF k < 0 THEN 0 ELSE At(a, <<i, k>>) * At(b, <<k, j>>) + Dot(a, b, i, j, k - 1)
Matmul(a, b) == Build(<<a.shape[1], b.shape[2]>>, LAMBDA idx : Dot(a, b, idx[1], idx[2], a.shape[2] - 1))
Outer(a, b) == Build(<<a.shape[1], b.shape[1]>>, LAMBDA idx : a.data[idx[1] + 1] * b.data[idx[2] + 1])
Diff1(t, d) == Build(Set(t.shape, d, t.shape[d] - 1), LAMBDA idx : At(t, Set(idx, d, idx[d] + 1)) - At(t, idx))
\* ---- interpreter of one step (st = [op, args (0-based refs), p (params)]) over the value list vals
Arg(vals, st, i) == vals[st.args[i] + 1]
B01(b) == IF b THEN 1 ELSE 0
Eval(vals, st) ==
   LET a == Arg(vals, st, 1) IN
   CASE st.op = "negative" -> Elem1(LAMBDA x : -x, a)
     [] st.op = "abs" -> Elem1(LAMBDA x : Abs(x), a)
     [] st.op = "square" -> Elem1(LAMBDA x : x * x, a)
     [] st.op = "positive" -> a
     [] st.op = "scalar_add" -> Elem1(LAMBDA x : x + st.p.k, a)
     [] st.op = "scalar_mul" -> Elem1(LAMBDA x : x * st.p.k, a)
     [] st.op = "add" -> Elem2(LAMBDA x, y : x + y, a, Arg(vals, st, 2))
     [] st.op = "subtract" -> Elem2(LAMBDA x, y : x - y, a, Arg(vals, st, 2))
     [] st.op = "multiply" -> Elem2(LAMBDA x, y : x * y, a, Arg(vals, st, 2))
     [] st.op = "maximum" -> Elem2(LAMBDA x, y : Max2(x, y), a, Arg(vals, st, 2))
     [] st.op = "minimum" -> Elem2(LAMBDA x, y : Min2(x, y), a, Arg(vals, st, 2))
     [] st.op = "lincomb" -> Elem2(LAMBDA x, y : 3 * x - y, a, Arg(vals, st, 2))
     [] st.op = "less" -> Elem2(LAMBDA x, y : B01(x < y), a, Arg(vals, st, 2))
     [] st.op = "equal" -> Elem2(LAMBDA x, y : B01(x = y), a, Arg(vals, st, 2))
     [] st.op = "not_equal" -> Elem2(LAMBDA x, y : B01(x # y), a, Arg(vals, st, 2))
     [] st.op = "greater_equal" -> Elem2(LAMBDA x, y : B01(x >= y), a, Arg(vals, st, 2))
     [] st.op = "where" -> Where3(a, Arg(vals, st, 2), Arg(vals, st, 3))
     [] st.op = "sum" -> ReduceAxes(LAMBDA x, y : x + y, a, st.p.axes, st.p.keepdims)
     [] st.op = "prod" -> ReduceAxes(LAMBDA x, y : x * y, a, st.p.axes, st.p.keepdims)
     [] st.op = "max" -> ReduceAxes(LAMBDA x, y : Max2(x, y), a, st.p.axes, st.p.keepdims)
     [] st.op = "min" -> ReduceAxes(LAMBDA x, y : Min2(x, y), a, st.p.axes, st.p.keepdims)
     [] st.op = "argmax" -> ArgAxis(LAMBDA x, y : x > y, a, st.p.axis, st.p.keepdims)
     [] st.op = "argmin" -> ArgAxis(LAMBDA x, y : x < y, a, st.p.axis, st.p.keepdims)
     [] st.op = "cumulative_sum" -> CumSum(a, st.p.axis)
     [] st.op = "reshape" -> Reshape(a, st.p.shape)
     [] st.op = "permute_dims" -> Permute(a, st.p.perm)
     [] st.op = "flip" -> Flip(a, st.p.axis)
     [] st.op = "roll" -> Roll(a, st.p.shift, st.p.axis)
     [] st.op = "concat" -> ConcatAll([i \in 1..Len(st.args) |-> Arg(vals, st, i)], st.p.axis, 1)
     [] st.op = "stack" -> Stack([i \in 1..Len(st.args) |-> Arg(vals, st, i)], st.p.axis)
     [] st.op = "expand_dims" -> ExpandDims(a, st.p.axis)
     [] st.op = "squeeze" -> Squeeze(a, st.p.axis)
     [] st.op = "broadcast_to" -> BroadcastTo(a, st.p.shape)
     [] st.op = "repeat" -> Repeat(a, st.p.repeats, st.p.axis)
     [] st.op = "index" -> SliceT(a, st.p.slices)
     [] st.op = "rechunk" -> a
     [] st.op = "tril" -> Tril(a, st.p.k)
     [] st.op = "triu" -> Triu(a, st.p.k)
     [] st.op = "matmul" -> Matmul(a, Arg(vals, st, 2))
     [] st.op = "outer" -> Outer(a, Arg(vals, st, 2))
     [] st.op = "diff" -> Diff1(a, st.p.axis)
RECURSIVE Run(_, _, _)
Run(c, vals, i) == IF i > Len(c.steps) THEN vals ELSE Run(c, Append(vals, Eval(vals, c.steps[i])), i + 1)
Result(c) == LET vals == Run(c, c.inputs, 1) IN [id |-> c.id, outs |-> [k \in 1..Len(c.outs) |-> vals[c.outs[k] + 1]]]
VARIABLE n
Init == n = 0
Next == n < Len(Cases) /\ n' = n + 1 /\ PrintT("RES" \o ToJson(Result(Cases[n + 1])))
Spec == Init /\ [][Next]_n
====
