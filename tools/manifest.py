#!/usr/bin/env python3
"""Regenerate MANIFEST.json from the table below (single source of truth for the interface)."""
import json, os
ROOT = os.path.dirname(os.path.dirname(os.path.abspath(__file__)))
props = [json.loads(l) for l in open(os.path.join(ROOT, "properties.jsonl"))]

CHECKS = {
 "C08": dict(
   engine="MapUnordered",
   technique="TLA+ spec MapUnordered.tla model-checked by TLC (safety + liveness, vacuity switches); traces of the real async_map_unordered under scripted virtual-time environments validated by the TLA+ monitor MapMonitor.tla; end-to-end fault injection on real executors",
   text="Exhaustive TLC exploration of the map loop's design (every wake-up content and iteration order, retries, backups, batching, N<=4-5) plus thousands of recorded executions of the real function, each judged clause by clause by the TLA+ monitor. Right level: the property is about interleavings of completions, which TLC enumerates and the virtual-time loop realises deterministically.",
   note="Trusted: TLC; the virtual-time event loop and scripted futures as a faithful stand-in for a thread pool; tenacity's Retrying is exercised for real. Bounds: N<=5 in the model, <=24 inputs in replays.",
   design_ref="DESIGN.md §5 C08, §4.8"),
 "C07": dict(
   engine="DagExec+DagTrace",
   technique="TLA+ spec DagExec.tla model-checked by TLC over DAG shapes x schedulers (vacuity switches CreateFirst / DepRule); store get/set call-return records and callbacks of runs on the real executors validated by the TLA+ monitor DagTrace.tla; every computation performed by the repository's own test-suite is recorded by a pytest plugin (harness/pytest_verif.py) and validated by the same monitor",
   text="TLC explores every interleaving of operation starts, task executions, chunk reads and writes for small plans and shows NoBadRead; every recorded run of generated programs on single-threaded / threads / processes executors x options, with write latency injected inside the store, is judged by the monitor: a data chunk of a produced array is read only after its producer's operation-end, which comes after the return of every write. A missing barrier is an ordering fact in the trace, not a lucky race.",
   note="Trusted: TLC; CLOCK_MONOTONIC being system-wide (cross-process ordering of non-overlapping call/return intervals); the LocalStore wrapper seeing every store access (zarr LocalStore is the only store used locally). Bounds: plans <= 5 ops in the model; generated programs <= 6 steps in runs.",
   design_ref="DESIGN.md §5 C07, §4.9"),
 "C01": dict(
   engine="Tensor",
   technique="TLA+ module Tensor.tla is the executable meaning of ~45 array functions on integer tensors; TLC evaluates every generated program with it and the cubed result under every chunking / executor / optimization setting must equal the TLA+ value (NumPy cross-checks the specification); functions outside the integer reference are judged by NumPy",
   text="The reference semantics is independent of chunking, fusion and executors, which is what the property says results may not depend on. Programs (1-3 inputs, broadcasting, sharing, several requested arrays, <= 5-6 steps) are replayed under several regular chunkings of every input (random, all-ones, full, uneven last chunk, operands chunked differently), optimize_graph on/off, single-threaded / threads / processes. A declined expression is fine; a different value or shape is a violation.",
   note="Trusted: TLC as evaluator; NumPy for float/opaque operators (mean, nan-functions, qr up to sign, searchsorted, pad, isin, take, map_overlap...). Bounds: tensors <= 64 elements in the TLA+ part, <= 3000 elements otherwise; 0-3 dims.",
   design_ref="DESIGN.md §5 C01, §4.1"),
 "C02": dict(
   engine="Optimize+OptTrace",
   technique="TLA+ spec Optimize.tla (fusion eligibility, DAG rewrite, source ordering) model-checked by TLC over DAG shapes x projections x budgets x requested/forced sets; real pre/post DAGs of every optimizer setting validated by the TLA+ monitor OptTrace.tla; optimized values replayed against the unoptimized run and NumPy",
   text="TLC proves RewriteValid and SourcesAreLeaves for every combination within bounds on the transcribed optimizer. For generated programs (repeated arguments, diamonds, mixed depths, requested intermediates, reductions, region stores) x 6 optimizer settings, the monitor judges the real DAG pair (requested arrays kept and produced, consumed arrays kept, fused sources = leaves in order) and the harness compares values with the unoptimized run and NumPy and checks that every requested array is materialized.",
   note="Trusted: TLC; the unoptimized run as value oracle (itself compared with NumPy). Bounds: DAGs <= 5 ops in the model, programs <= 7 steps in replays. Open finding F17 (legacy optimizer + stream argument) is reported as KNOWN-FINDING.",
   design_ref="DESIGN.md §5 C02, §4.6"),
 "C03": dict(
   engine="TaskMem+MemTrace",
   technique="TLA+ spec TaskMem.tla (live set of a task vs calculate_projected_mem / peak_projected_mem, every operation shape in bounds) model-checked by TLC; per-task tracemalloc peaks of a catalogue of real operations (fused and unfused, two compressor/data regimes) validated by the TLA+ monitor MemTrace.tla",
   text="TLC enumerates every operation shape within bounds and shows that the projection formula dominates the modelled live set under an explicit side condition (and that without it an under-projected shape exists). Every task of ~45 catalogue programs (element-wise, reductions incl. widening and structured intermediates, scans, linear algebra, manipulation, indexing, rechunk, fused diamonds/fan-in) is executed in-process under tracemalloc with 2-4 MB chunks and a 400 kB reserved_mem; the monitor requires peak <= projected <= allowed for each.",
   note="Trusted: TLC; tracemalloc as the observer of data allocations (NumPy buffers, byte strings); an excess must reproduce in the minimum of three executions. Open findings F11, F12, F16, F20, F21, F33, F34, F35 are reported as KNOWN-FINDING (narrow: program + operation + regime).",
   design_ref="DESIGN.md §5 C03, §4.7"),
 "C04": dict(
   engine="Optimize+OptTrace",
   technique="TLA+ spec Optimize.tla (projected memory of fused ops, admission) model-checked by TLC with vacuity switches; budgets placed at m-1/m/m+1 of every real projection, admission traces and real pre/post projections validated by the TLA+ monitor OptTrace.tla",
   text="TLC shows NothingBeforeValidate, FusedNotLess, DefaultStaysInBudget for all small DAGs x projections x budgets x forced sets. Against the code, each program is rebuilt with allowed_mem exactly at, one byte below and one byte above each operation's projection (x reserved_mem x optimizer x entry point); the monitor requires refusal iff some projection exceeds the budget, no executor entry / store write / new file before a refusal, fused projection >= each replaced op's, and unforced optimization never leaving the budget.",
   note="Trusted: TLC; ValueError before executor entry as the observable form of validate(); directory listing of the work dir for 'nothing written'.",
   design_ref="DESIGN.md §5 C04, §4.6"),
 "C05": dict(
   engine="DagExec+TaskTrace",
   technique="TLA+ spec DagExec.tla (SingleWriter, Covered, FinalGood; a shared-chunk plan must lose an update) model-checked by TLC; store/zarr records of layout-stressing programs run one task at a time validated by the TLA+ monitor TaskTrace.tla; every computation performed by the repository's own test-suite is recorded by a pytest plugin (harness/pytest_verif.py) and validated by the same monitor",
   text="Every store set/get and every zarr-level write of every task execution is attributed exactly (sequential adversarial executor) and judged: one writer task per chunk key, once per execution, only by the producer; no task finds another task's data in its own output (read-modify-write); writes cover whole chunks/shards of the real target grid (regular or rectilinear); at operation end the written keys cover each output. Programs: multi-stage rechunks under tight budgets (regular/irregular), stores into equal/finer/coarser/coprime/sharded targets, region stores, multi-output operators, random programs.",
   note="Trusted: TLC; one store key per chunk (or shard) in LocalStore; attribution relies on the harness executor running one task at a time. Arrays <= 120x120, <= 300 blocks per array.",
   design_ref="DESIGN.md §5 C05"),
 "C06": dict(
   engine="DagExec+TaskTrace",
   technique="TLA+ spec DagExec.tla with duplicate/zombie executions (OnlyGoodOverwrites, FinalGood) model-checked by TLC; adversarial schedules (shuffle, repeats now/late/after downstream ops, cloudpickle placement in a fresh interpreter) of the real task functions validated by TaskTrace.tla against a reference run",
   text="The real pipeline functions are executed in shuffled order, re-executed (immediately, after their operation ended, after downstream operations ran, at the very end) and partly shipped through cloudpickle to a fresh interpreter; the monitor requires every rewrite of a key to carry identical bytes and every array to end with the contents of a plain reference run; results equal NumPy; cubed.random inputs regenerate identical blocks.",
   note="Trusted: TLC; SHA-1 of encoded chunks as content identity; arrays of two builds matched by creation rank.",
   design_ref="DESIGN.md §5 C06"),
 "C09": dict(
   engine="DagExec+TaskTrace",
   technique="TLA+ spec DagExec.tla with Crash/Resume model-checked by TLC (switches ResumeRule=any, ResumeRule=count (sharded completeness, finding F27), CreateMode=w must violate; F13 carved out by the taint StaleByF13); crash points at task and chunk-write granularity enumerated against the real code, resumed runs validated by the TLA+ monitor TaskTrace.tla",
   text="For each generated program the computation is crashed after k tasks and before/after the k-th data set, storage is inspected by plain directory listing, compute(resume=True) is run under a recording executor and the monitor requires: an operation is skipped only if every output was complete, complete arrays are not recomputed (except array creation and 0-d outputs), nothing is deleted; the result equals NumPy or the resume is refused before any task (plans with structured-dtype arrays only).",
   note="Trusted: TLC; a crash = client stops between tasks or inside a data set (before/after it took effect); torn single-chunk writes are excluded by LocalStore's atomic rename. Plans <= 60 tasks; quick samples 8 crash points per program, thorough enumerates all.",
   design_ref="DESIGN.md §5 C09"),
 "C10": dict(
   engine="PlanGraph",
   technique="TLA+ spec PlanGraph.tla (names, plan merging, shared operation objects, in-place re-targeting) model-checked by TLC: every value change goes through a listed taint (incl. prefilled-resume of the ComputeResume action = F13), ValueFixed itself is violated (F8/F9 are real); TLC-generated call histories (all histories of 5-6 calls + simulated longer ones), labelled with the model's taints, replayed into cubed against NumPy shadows and checksums",
   text="After every replayed call the harness computes what the history says, compares with the value fixed when the array was built, and checks the checksums of in-memory inputs, of a Zarr source opened for reading and of every target written by an earlier store; value-neutral calls (re-compute with resume, optimization on/off, another default executor) are interleaved. A failing history whose taint set (computed by TLC) is empty is a violation; tainted failures are the known findings F8/F9.",
   note="Trusted: TLC; the model's taint as the identity of the known findings (a tainted history that fails for a NEW reason is attributed to the finding). compile_function is not among the replayed calls.",
   design_ref="DESIGN.md §5 C10, §4.3"),
 "C11": dict(
   engine="PlanGraph+StoreTrace",
   technique="TLA+ spec PlanGraph.tla model-checked by TLC (re-targeting taints); store/to_zarr calls enumerated over sources x targets x regions x eager/lazy x pairs x executors, facts read back with plain zarr and judged by the TLA+ monitor StoreTrace.tla",
   text="Targets are pre-filled with sentinels; after the call (or after computing the lazily returned arrays) each target must exist, hold exactly the source values inside the region and sentinels outside; unsafe requests (misaligned region, region end not at a chunk boundary or the edge, wrong shape, source narrower than a chunk at a misaligned offset) must be rejected with an allowed exception and without any store write or new file. Threads runs use injected write latency so that multi-writer layouts lose data deterministically.",
   note="Trusted: TLC; plain zarr reads as the observer of target contents. One source stored to several targets in one call is the open finding F8/F9 (taint from PlanGraph).",
   design_ref="DESIGN.md §5 C11"),
 "C20": dict(
   engine="PlanGraph",
   technique="TLA+ spec PlanGraph.tla with two processes (per-process name counters, plans merged by name, cloudpickle shipping) model-checked by TLC; TLC-generated two-process histories replayed with every process in a fresh interpreter and arrays shipped by cloudpickle; same-process round trips of generated programs",
   text="TLC shows that in the design as it is every confusion of two arrays goes through the taint name-collision (F10) and that ValueFixed is violated. Each generated history (sender builds and ships, receiver creates arrays before/after, derives from shipped and local arrays, computes) is executed by two fresh interpreters so that name counters are exactly the model's; every compute is compared with NumPy shadows; untainted failures are violations.",
   note="Trusted: TLC; one cubed operation per model Derive so that counters agree. Open finding F10 is reported as KNOWN-FINDING.",
   design_ref="DESIGN.md §5 C20, §4.3"),
 "C12": dict(
   engine="DagExec+TaskTrace",
   technique="zarr-level write records of every task validated by the TLA+ monitor TaskTrace.tla (value shape = region shape is the enabling condition of the write action); declared vs backing vs result metadata compared in the monitor; DagExec.tla multi-output plan model-checked; every computation performed by the repository's own test-suite is recorded by a pytest plugin (harness/pytest_verif.py) and validated by the same monitor",
   text="For every array of generated programs (intermediates, fused, each output of multi-output operators, qr) the metadata declared before computing must equal the backing Zarr array's and the result's, and every block a task writes must have exactly the shape of the region it is written into.",
   note="Trusted: TLC; zarr.Array.__setitem__ being the only path by which cubed writes blocks. Structured (field) arrays: block shapes checked, metadata triple not.",
   design_ref="DESIGN.md §5 C12"),
 "C14": dict(
   engine="Rechunk",
   technique="TLA+ module Rechunk.tla defines a valid rechunk plan (stage rules, copy-region alignment with the grid actually written, memory bound, final chunks); TLC judges every plan returned by the real planners and every copy-operation plan of lazily built rechunks over thousands of geometries x budgets; a sub-sample is computed",
   text="The planner's floating-point search is not transcribed; the spec says what any returned plan must satisfy and TLC evaluates it per case: int = min(read, write), all chunks within budget, last write made of whole target chunks; for cubed's copy operations every copy region starts and ends on a boundary of the (regular or rectilinear) grid read from the really built array, copy chunk within (allowed - reserved) / copies, final chunks exactly as requested. Planner calls run under a timeout (termination) and may only refuse with ValueError / NotImplementedError. 30-600 rechunks are computed: elements preserved, chunks as requested.",
   note="Trusted: TLC as evaluator. Bounds: 1-3 dims, extents <= 24 (quick) / 120 (thorough). An earlier rule demanding source-aligned reads was a false alarm and was removed (DESIGN.md).",
   design_ref="DESIGN.md §5 C14, §4.10"),
 "C16": dict(
   engine="ApiTrace",
   technique="TLA+ monitor ApiTrace.tla (reference-level API state machine, clause Lazy) over per-call observations at the Zarr store, executor and file-system boundaries; catalogue of all public callables enumerated by introspection + generated programs with plan() and visualize()",
   text="Every public callable of cubed, cubed.array_api, linalg and random (~280 reached, the rest listed as uncatalogued in the evidence) and every build step / plan() / visualize() of generated programs is executed with observation on; the monitor requires zero store writes, deletes, data-chunk reads, new files below the work directory and executor entries for each such call.",
   note="Trusted: TLC; the LocalStore wrapper and directory listing as the observers of side effects; arguments come from a recipe table, so argument forms outside it are not exercised.",
   design_ref="DESIGN.md §5 C16"),
 "C17": dict(
   engine="ApiTrace",
   technique="TLA+ monitor ApiTrace.tla (clause DeclinedEarly) over call-by-call builds, plans and computes of generated programs that NumPy evaluates, incl. an 'awkward layout' family",
   text="Programs are built one API call at a time; an exception during build or plan must be ValueError / TypeError / NotImplementedError / IndexError, and once build and plan succeeded a fault-free compute must not fail (an admission refusal before the executor is entered is C04's business and is recognised as such).",
   note="Trusted: TLC; the generator only emits expressions NumPy evaluates.",
   design_ref="DESIGN.md §5 C17"),
 "C18": dict(
   engine="MemSize",
   technique="TLA+ module MemSize.tla gives the exact meaning of a size literal on digit sequences (grammar parser + decimal shift); TLC evaluates thousands of generated literals and convert_to_bytes must agree digit for digit or reject where the reference rejects; mixed-Spec rejection swept over every multi-array entry point x every Spec field",
   text="(a) ~30 multi-array entry points (functions, operators, compute/plan/visualize/store, index-by-array) x 7 Spec fields differing one at a time: ValueError required, except per-argument functions (broadcast_arrays, meshgrid, eager index evaluation) that may accept if no returned plan mixes both inputs; accepted plans carry the Spec's allowed_mem/reserved_mem on the plan and every operation. (b) literals with up to 17+7 digits, exponents, underscores, units, spaces and ~15% malformed variants: exact byte count or rejection, only ValueError counts as rejection.",
   note="Trusted: TLC as evaluator (digit-sequence arithmetic, no 32-bit limit). Non-ASCII digits are outside the grammar and not generated.",
   design_ref="DESIGN.md §5 C18, §4.10"),
 "C19": dict(
   engine="ApiTrace",
   technique="TLA+ monitor ApiTrace.tla (clause ConfigInvariant) over the same scenario built, planned and computed under the global default configuration and explicit Specs differing in work_dir, intermediate store, compressor, reserved_mem, executor, allowed_mem",
   text="One program per generator function (a helper array created without the caller's spec is the failure mode) plus compositions; acceptance (exception type and phase) and value hashes must agree across all configuration variants.",
   note="Trusted: TLC; value identity by hash of the result arrays (floats rounded to 9 decimals).",
   design_ref="DESIGN.md §5 C19"),
 "C15": dict(
   engine="Blockwise",
   technique="TLA+ module Blockwise.tla is the reference semantics of index notation and of fusion provenance; TLC evaluates it on thousands of enumerated cases (one implementation test per case) and the real key functions / fused specs must agree on every output block",
   text="(1) For random index patterns x block counts x broadcast dims x contractions x new axes x repeated arrays, the real make_blockwise_back_key_function_flattened must return exactly the reference's keys or decline where it declines. (2) Random trees of real PrimitiveOperations over 11 key-function shapes (lists, iterators, mixed-source lists, alternating/concatenating sources, repeated/swapped arguments) are fused with the real optimizer path and run on symbolic blocks through the real map_nested; the term must equal the reference's provenance term, structure included.",
   note="Trusted: TLC as evaluator; the harness's own key functions for the 11 shapes (they are inputs, not the code under test). 1-d block grids for fusion trees.",
   design_ref="DESIGN.md §5 C15, §4.4"),
 "C13": dict(
   engine="DagExec+DagTrace",
   technique="TLA+ spec DagExec.tla (EventsOk with duplicate/zombie executions) model-checked by TLC; callback streams, advertised num_tasks, task-iterable lengths and plan totals of real-executor runs validated by the TLA+ monitor DagTrace.tla; every computation performed by the repository's own test-suite is recorded by a pytest plugin (harness/pytest_verif.py) and validated by the same monitor",
   text="The monitor checks on every recorded run: one compute-start first and one compute-end last, per operation one start before and one end after all its task-ends, delivered task count = advertised num_tasks = length of the task iterable, plan total = sum, every runnable operation ran. Programs include region stores, differently chunked targets, multi-output operators, multi-stage rechunks, scans, fused plans; executors x options.",
   note="Trusted: TLC; the Callback API delivering events in the client thread (total order by per-process sequence number). Bounds as C07.",
   design_ref="DESIGN.md §5 C13, §4.9"),
}

def build():
    checks, na = [], []
    for p in props:
        pid = p["id"]
        c = CHECKS.get(pid)
        if c is None:
            na.append(dict(property_id=pid, reason=NA.get(pid, "check not built yet (planned in DESIGN.md; moves to checks when committed)")))
            continue
        checks.append(dict(
            property_id=pid, quick_cmd=f"./check {pid} quick", thorough_cmd=f"./check {pid} thorough",
            evidence_file=f"/verif/evidence/{pid}.json", replay_cmd_template=f"./check {pid} quick --replay {{path}}",
            engine=c["engine"],
            level_claimed=dict(category="model_checking", text=c["text"], design_ref=c["design_ref"]),
            level_note=c["note"], technique=c["technique"]))
    engines = {}
    for pid, c in CHECKS.items():
        for e in c["engine"].split("+"):
            engines.setdefault(e, []).append(pid)
    m = dict(version=1, setup_cmd="./setup.sh",
             hooks=dict(guard="CUBED_VERIF_TRACE",
                        enable="no source hooks in /repo: observation is a harness-side wrapper of the zarr LocalStore / zarr.Array / executor / callback boundaries, activated by CUBED_VERIF_TRACE=<dir> and carried into spawned workers by /verif/harness/site/sitecustomize.py on PYTHONPATH; cubed is imported from /repo's working tree (editable install), so checks always see the current sources",
                        baseline_off_cmd="cd /repo && /venv/bin/python -m pytest -ra -q -p no:cacheprovider --timeout=900 --continue-on-collection-errors",
                        source_commits=[], add_only=True),
             engines=[dict(name=e, path=f"/verif/spec/{e}.tla", serves_properties=sorted(v), kind_free_text="TLA+ module checked with TLC; bound to the code by harness/ (replay and trace validation)") for e, v in sorted(engines.items())],
             checks=checks,
             notes="One entry point: ./check <id> <quick|thorough>. Specs in spec/, harness in harness/, per-property drivers in checks/. known_findings.json lists genuine defects (open = reported as KNOWN-FINDING, fixed = repaired by a 'fix:' commit in /repo).",
             not_applicable=na)
    json.dump(m, open(os.path.join(ROOT, "MANIFEST.json"), "w"), indent=1)
    print(f"{len(checks)} checks, {len(na)} not applicable")

NA = {}
if __name__ == "__main__":
    build()
