#!/usr/bin/env python3
"""Run checks against the seeded changes in /verif/seeded/<id>/ (each applied in a scratch worktree, never in /repo).
usage: tools/run_seeded.py [seed-id ...] [--checks C05,C14] [--tier quick]
Writes /verif/seeded/<id>/meta.json (what it breaks, what was run, which checks caught it)."""
import json, os, subprocess, sys, time
ROOT = os.path.dirname(os.path.dirname(os.path.abspath(__file__)))
args = [a for a in sys.argv[1:] if not a.startswith("--")]
opts = dict(a[2:].split("=", 1) for a in sys.argv[1:] if a.startswith("--") and "=" in a)
tier = opts.get("tier", "quick")
ids = args or sorted(os.listdir(os.path.join(ROOT, "seeded")))
for sid in ids:
    d = os.path.join(ROOT, "seeded", sid)
    if not os.path.exists(os.path.join(d, "patch.diff")):
        continue
    prop = sid.split("-")[0]
    checks = opts.get("checks", prop).split(",")
    wt = f"/tmp/wt/seedrun-{sid}"
    subprocess.run(["git", "-C", "/repo", "worktree", "remove", "--force", wt], capture_output=True)
    subprocess.run(["git", "-C", "/repo", "worktree", "add", "-q", "--detach", wt, "HEAD"], check=True)
    try:
        ap = subprocess.run(["git", "-C", wt, "apply", os.path.join(d, "patch.diff")], capture_output=True, text=True)
        if ap.returncode != 0:
            print(sid, "PATCH DOES NOT APPLY", ap.stderr[:200])
            continue
        meta_p = os.path.join(d, "meta.json")
        meta = json.load(open(meta_p)) if os.path.exists(meta_p) else {}
        conf = json.load(open(os.path.join(d, "confirm.json"))) if os.path.exists(os.path.join(d, "confirm.json")) else {}
        meta.update(property=prop, seed=sid, confirmed=conf.get("confirmed"))
        meta.setdefault("detected_by", {})
        for c in checks:
            t0 = time.time()
            env = dict(os.environ, CUBED_REPO=wt)
            p = subprocess.run([os.path.join(ROOT, "check"), c, tier], capture_output=True, text=True, env=env, cwd=ROOT)
            viol = [l for l in p.stdout.splitlines() if l.startswith("VIOLATION")]
            meta["detected_by"][f"{c}:{tier}"] = dict(rc=p.returncode, violations=len(viol), first=(viol[0][:300] if viol else None),
                                                       wall_s=round(time.time() - t0))
            print(sid, c, tier, "rc", p.returncode, "violations", len(viol), (viol[0][:160] if viol else (p.stderr[-200:] if p.returncode == 2 else "")), flush=True)
        json.dump(meta, open(meta_p, "w"), indent=1)
    finally:
        subprocess.run(["git", "-C", "/repo", "worktree", "remove", "--force", wt], capture_output=True)
