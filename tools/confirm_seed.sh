#!/bin/sh
# usage: tools/confirm_seed.sh <prop> <a|b> "<pytest -k expr or test paths>"   -- confirm a seeded change in a scratch worktree and file it
set -u
P=$1; M=$2; TESTS=${3:-cubed/tests/runtime}
SRC=${4:-/tmp/wt-out/$P/$M}     # optional: source directory of the candidate
SID=${5:-$P-$M}                 # optional: id under which it is filed (e.g. C01-c for a second-round seed)
WT=/tmp/wt/confirm-$P-$M
git -C /repo worktree add -q --detach $WT HEAD || exit 2
cd $WT
PYTHONPATH=$WT timeout 300 /venv/bin/python $SRC/demo.py >/tmp/confirm-$P-$M.clean.log 2>&1; RC_CLEAN=$?
git apply $SRC/patch.diff || { echo "patch does not apply"; git -C /repo worktree remove --force $WT; exit 2; }
PYTHONPATH=$WT timeout 300 /venv/bin/python $SRC/demo.py >/tmp/confirm-$P-$M.mut.log 2>&1; RC_MUT=$?
PYTHONPATH=$WT timeout 1800 /venv/bin/python -m pytest -q -p no:cacheprovider -x -n 6 --timeout=900 -k "not spark and not hypothesis" $TESTS >/tmp/confirm-$P-$M.tests.log 2>&1; RC_T=$?
TAIL=$(tail -1 /tmp/confirm-$P-$M.tests.log)
cd /; git -C /repo worktree remove --force $WT
echo "$P-$M demo clean rc=$RC_CLEAN mutated rc=$RC_MUT tests rc=$RC_T :: $TAIL"
if [ $RC_CLEAN -eq 0 ] && [ $RC_MUT -ne 0 ] && [ $RC_T -eq 0 ]; then
  D=/verif/seeded/$SID; mkdir -p $D
  cp $SRC/patch.diff $D/patch.diff; cp $SRC/demo.py $D/demo.py; cp $SRC/notes.md $D/notes.md 2>/dev/null
  echo "{\"property\": \"$P\", \"variant\": \"$M\", \"confirmed\": {\"demo_rc_clean\": $RC_CLEAN, \"demo_rc_mutated\": $RC_MUT, \"tests\": \"$TESTS\", \"tests_tail\": \"$TAIL\"}}" > $D/confirm.json
  echo FILED $D
else
  echo NOT-CONFIRMED
fi
