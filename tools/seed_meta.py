#!/usr/bin/env python3
"""Fill the descriptive part of seeded/<id>/meta.json (what the change is, what it needs to manifest); detection results are
written by tools/run_seeded.py."""
import json, os
ROOT = os.path.dirname(os.path.dirname(os.path.abspath(__file__)))
D = {
 "C01-c": ("the flip that realises a negative-step slice is only applied when a real selection was made", "a slice reversing a WHOLE axis with every indexed axis kept at full length (x[::-1], x[:, ::-1], x[..., ::-1])"),
 "C02-c": ("requested-array veto folded into predecessor_ops_and_arrays(array_names) but not passed by fuse_predecessors", "several arrays computed together; a requested array is the only-consumer input of an op with >= 2 predecessor ops"),
 "C03-c": ("general_blockwise computes the output memory once, from the LAST output's chunk size", "a multi-output op whose earlier output has larger chunks than the last one and little extra_projected_mem"),
 "C04-c": ("can_fuse_multiple_primitive_ops de-duplicates predecessors by identity before peak_projected_mem; fuse_multiple does not", "the same lazy array in two argument positions and allowed_mem between the unfused and the fused projection"),
 "C05-c": ("same change as C05-b / C14-a (chosen independently a third time)", "as C05-b"),
 "C06-c": ("CubedArrayProxy.open() caches the opened array (dropped on pickling)", "b.compute() followed by to_zarr(b, ...) of the same lazy array on an in-process executor"),
 "C07-c": ("processes executor pickles kwargs once per operation NAME; refills and backups pass no name", "processes executor with batch_size (or backups) and >= 2 operations with more tasks than the batch size"),
 "C08-c": ("the next batch is submitted right after asyncio.wait, before this round's results are delivered", "use_backups with batch_size=1: the withdrawn twin was all that was pending, unsent inputs are dropped silently"),
 "C09-c": ("already_computed: nchunks_initialized != nchunks -> <", "sharded store target with a ragged edge, crash late in the shard writes (exposed the genuine defect F27)"),
 "C10-c": ("whole-target stores create the LazyZarrArray with overwrite=True", "a stored array recomputed (directly or through a descendant) with resume=True"),
 "C11-c": ("same change as C06-c (chosen independently)", "as C06-c"),
 "C12-c": ("_partial_reduce skips reduce_func when an initial function is given", "core reduction whose per-chunk func only maps, with a first-round group of a single block (blocks = 1 mod 4)"),
 "C13-c": ("per-operation end events emitted from a closure that reads the loop variable late", "compute_arrays_in_parallel=True with >= 2 operations in one generation"),
 "C14-c": ("same change as C14-a (chosen independently)", "as C05-b"),
 "C15-c": ("fused key function evaluates the predecessor key function once per distinct ChunkKey", "the same array in two argument positions of a fused op whose predecessor yields an iterator of blocks"),
 "C16-c": ("_check_target_path opens the root group with mode 'a' when a path is given", "to_zarr(x, store, path='sub/group', compute=False) on a store without a root group"),
 "C17-c": ("tsqr layout check uses chunksize (the regular row chunk)", "qr/svd with a short LAST row chunk, e.g. (10, 3) chunks (4, 3)"),
 "C18-c": ("Spec.__eq__ compares (executor name, spec.executor_options) and so ignores the options of an executor object", "two Specs equal but for executor objects of one class with different options"),
 "C19-c": ("_r1_is_too_big: allowed_mem // (copies*2) without subtracting reserved_mem", "reserved_mem > 0 and a tall-skinny QR whose R1 lies between (allowed-reserved)/8 and allowed/8"),
 "C01-d": ("tree_reduce: number of combine rounds = ceil(log(total blocks, total fan-in)) instead of the per-axis maximum", "a reduction over >= 2 axes whose block grid is skewed with more than one block per reduced axis (9x3, 10x5, 9x3x2)"),
 "C03-d": ("Plan._finalize checks projected_mem > allowed_mem on the plan as built, before optimization", "an optimizer without the peak-memory veto (fuse_all / always_fuse / user function) on a fan-in expression with a tight allowed_mem"),
 "C04-d": ("peak_projected_mem counts projected_mem - reserved_mem for every fused predecessor after the first", "reserved_mem > 0, >= 2 fused predecessors, the heavy one not first and heavier than the consumer"),
 "C06-d": ("nanmedian maps nxp.nanmedian(..., overwrite_input=a.flags.writeable) over the blocks", "an in-memory asarray source whose reduced axis is one chunk, an in-process executor, and a second consumer / duplicate execution"),
 "C07-d": ("visit_node_generations hand-rolled: outstanding inputs = distinct predecessors, decremented once per edge", "compute_arrays_in_parallel=True and an op with a repeated input plus a deeper input (as C07-a)"),
 "C08-d": ("a failed attempt whose twin is still running deletes the backup pairing", "use_backups, a launched backup, one of the twins failing for good while the slow survivor keeps running: third submission"),
 "C09-d": ("ZarrV3ArrayGroup gains ndim / nchunks / nchunks_initialized (read from its first field only)", "structured intermediate written to storage, crash between the field writes of the op's last task, resume"),
 "C12-d": ("same change as C17-b (chosen independently): stack takes a = arrays[0] before unify_chunks", "as C17-b"),
 "C16-d": ("from_array writes in-memory NumPy inputs over 1 MB into the intermediate store at build time", "cubed.from_array(np_array) with more than 1 MB of data"),
 "C18-d": ("check_array_specs removed from arrays_to_dag", "cubed.plan(a, b) / cubed.visualize(a, b) over arrays of different Specs"),
 "C01-a": ("moveaxis builds the permutation in source order instead of destination order", "ndim >= 3 and at least two axes moved in a non-order-preserving way (12 of 81 source/destination pairs on 3-d)"),
 "C01-b": ("constant pad uses the leading fill value for the trailing pad", "constant_values given as a (before, after) pair with different values and pad_after > 0"),
 "C02-a": ("always_fuse override evaluated before the requested-array guard", "an always_fuse style optimizer + several requested arrays where one is a single-consumer input of another's op"),
 "C02-b": ("legacy fuse() iterates op1's task ids with op2's key function", "simple_optimize_dag + op2 with a different block grid at equal task count (region store at an offset, non-square transpose)"),
 "C03-a": ("partial_reduce sizes its temporaries with the input dtype", "widening reduction (int8/float32 -> 64 bit) on skinny chunks in the first round"),
 "C03-b": ("fuse_multiple models a predecessor feeding two arguments once", "fused diamond y = a + b; y * y"),
 "C04-a": ("admission compares projected_mem with allowed_mem + reserved_mem", "reserved_mem > 0 and allowed < projected <= allowed + reserved"),
 "C04-b": ("generator consumed by all() before peak_projected_mem: fusion memory guard always passes", "an op with >= 2 fusable predecessors whose retained-chunk peak exceeds every single op, budget between the two"),
 "C05-a": ("sharded targets are additionally rechunked to their inner chunks", "existing sharded target + a budget whose consolidated copy chunks are not shard-aligned"),
 "C05-b": ("regular multi-stage planner aligns the first read only to the final write chunks", "allow_irregular=False, >= 2 stages, a shrinking axis whose source chunk is neither the axis nor a multiple of the first intermediate"),
 "C06-a": ("random stream id computed with an off-by-one stride", "wide 2-d block grids (later axis with more blocks) or some 3-d grids: two blocks share a Philox key"),
 "C06-b": ("structured-dtype arrays created with overwrite=True", "a duplicated create-arrays task running after the producing op wrote chunks of a structured intermediate"),
 "C07-a": ("topological generations computed with de-duplicated in-degrees on a MultiDiGraph", "compute_arrays_in_parallel=True and an op with a repeated input plus a deeper input"),
 "C07-b": ("batch refill: break instead of continue when the input iterator is exhausted", "batch_size set and slow last tasks"),
 "C08-a": ("exception suppression inverted when the twin also failed", "use_backups, a straggler that gets a backup, both submissions failing"),
 "C08-b": ("retry wrapper skipped for retries == 1", "retries=1 and one transient failure"),
 "C09-a": ("already_computed decides from the first output only", "multi-output op, crash between the chunk writes of its outputs in the last outstanding task, resume"),
 "C09-b": ("ZarrV3ArrayGroup delegates unknown attributes to its first field", "structured intermediate, crash between the field writes of the last task, resume (the up-front refusal disappears)"),
 "C10-a": ("CubedArrayProxy.open() memoises the opened array", "the op producing x ran once in-process, then to_zarr(x, t) re-targets the shared proxy in place"),
 "C10-b": ("_compile_blockwise assigns the compiled function into the shared spec", "a compute with compile_function earlier in the history, an unfused op shared with a later compute"),
 "C11-a": ("region alignment checked against the source's chunksize", "source narrower than a target chunk, region start not a multiple of the target chunk"),
 "C11-b": ("source rechunked only when target chunks are larger", "existing target with smaller, non-dividing chunks and a parallel executor"),
 "C13-a": ("region store num_tasks derived from floor(stop / chunk)", "region store reaching a ragged edge of the target"),
 "C13-b": ("operation-end callback only for the last op of a parallel generation", "compute_arrays_in_parallel=True with >= 2 ops in one generation"),
 "C14-a": ("same change as C05-b (found independently)", "as C05-b"),
 "C14-b": ("rechunk budget ignores reserved_mem", "reserved_mem > 0 and a copy chunk between (allowed-reserved)/5 and allowed/5"),
 "C15-a": ("index-notation read plans keyed by array name", "the same array passed twice with different index patterns"),
 "C15-b": ("list branch of apply_blockwise_key_func resolved from its first element", "a key function returning a list mixing blocks of two arrays, with fused predecessors"),
 "C12-a": ("row-chunk guard moved from tsqr() into qr(): svd/svdvals lose it", "svd on a long axis whose last chunk has length 1 (9x4 with chunks (4,4), or the wide 4x9 case)"),
 "C12-b": ("source rechunked to the target's chunks only when not a whole multiple", "lazy source, existing target whose smaller chunks evenly divide the source chunks, compute=False: returned array declares the old chunks"),
 "C16-a": ("repeat() coerces repeats with operator.index", "repeats given as a 0-d cubed array (its plan is executed while the expression is built)"),
 "C16-b": ("region writes to a path target create the target at build time", "a path/store target (not an open zarr.Array) together with a non-trivial region, even with compute=False"),
 "C17-a": ("tsqr validates only the nominal (first) row chunk", "a row count that leaves a last chunk shorter than the column count, e.g. (10,3) with chunks (4,3)"),
 "C17-b": ("stack takes the output chunks from the first input before unify_chunks", "differently chunked inputs where the first is not the finest on some axis (order dependent)"),
 "C18-a": ("Spec.__eq__ compares a key tuple that omits reserved_mem", "two Specs identical except for reserved_mem"),
 "C18-b": ("string sizes return before the negative check", "a negative size given as a string ('-100MB')"),
 "C19-a": ("map_blocks takes the helper spec from the first positional argument only", "a non-cubed first argument followed by a cubed one, under an explicit Spec different from the default"),
 "C19-b": ("rechunk budget ignores reserved_mem (same site as C14-b, found independently)", "memory-limited rechunk with non-zero reserved_mem: Specs with equal usable memory get different acceptance"),
 "C20-a": ("Spec.__eq__ compares vars(), which includes the cached executor property", "exactly one of two equal Specs (the unpickled copy vs the local one) has been used in a compute"),
 "C20-b": ("LazyZarrArray remembers (and pickles) that it was created", "the sender computed the array before shipping and has exited (its context directory is gone); the receiver must materialise that array"),
}
for sid, (breaks, needs) in D.items():
    d = os.path.join(ROOT, "seeded", sid)
    if not os.path.isdir(d):
        continue
    p = os.path.join(d, "meta.json")
    m = json.load(open(p)) if os.path.exists(p) else {}
    m.update(property=sid.split("-")[0], seed=sid, change=breaks, needs_to_manifest=needs,
             ran="tools/confirm_seed.sh (demo fails with / passes without the change, relevant existing tests pass with it) and "
                 "tools/run_seeded.py (checks run with CUBED_REPO=<scratch worktree with the patch applied>)")
    if os.path.exists(os.path.join(d, "confirm.json")):
        m["confirmed"] = json.load(open(os.path.join(d, "confirm.json"))).get("confirmed")
    json.dump(m, open(p, "w"), indent=1)
print("ok")
